"""C14 -- Dubins / Reeds-Shepp: structural clauses of "distances are the lengths of real, optimal curves".

R14a six-word fold: dubinsExhaustive returns, for every weak ordering of the six word lengths, a word of minimal length
     (finite-domain evaluation of its normal form over all 46656 rank assignments)
R14b solver <-> table row: each word solver dubinsXYZ builds its path on the row of dubinsPathType() that spells X,Y,Z
R14c one path for distance and curve: interpolate's first-call block selects dubins(from, to) (or, when isSymmetric_, the shorter
     of the two directions, marking reverse_ exactly then) and rho * its length is the normal form of distance() for every
     ordering of the two lengths; Reeds-Shepp: the same solver call with the same argument order in both
R14d integrator shape: the segment switch has a case for every segment type of the table; the segment length and the segment
     type are read at the same index in every loop; Dubins' reverse traversal is the forward case with v -> -v
R14k vehicle model (differentiated normal form): in every case of both integrators, d(x')/dv == +-cos(yaw'(v)), d(y')/dv ==
     +-sin(yaw'(v)), dyaw'/dv == +1 / -1 / 0 for LEFT / RIGHT / STRAIGHT (sign flipped on Dubins' reverse traversal), and x', y',
     yaw' at v = 0 are the old pose -- unit-radius arcs and straight lines, for all inputs; the result is scaled by the turning
     radius and translated by `from` only in the final stores
R14h the single-precision helper formulas t_X / p_X / q_X used by the classification equal the t, p, q of the double-precision
     word solver X (identifying sqrtf/atan2f with sqrt/atan2)
R14m reversal symmetry: reversing the direction of travel maps (alpha, beta) -> (beta, alpha), a word to its reversed mirror
     (LSL<->RSR, RSL<->RSL, LSR<->LSR, RLR<->LRL) and (t, p, q) -> (q, p, t).  The word solvers satisfy it in normal form, and the
     16-cell classification table is mirror symmetric: cell a_ij at (alpha, beta) selects the mirror of what cell a_ji selects
     at (beta, alpha), under the same conditions modulo their boundary (priority between the triggers of an else-if chain is not compared)
R14e Reeds-Shepp symmetry variants: every formula F is tried as F(x, y, phi), F(-x, y, -phi) [timeflip], F(x, -y, -phi) [reflect],
     F(-x, -y, phi) [both]; timeflip variants negate every segment length of their partner and stay on its table row, reflect
     variants keep the lengths and use the L<->R mirrored row; every candidate is admitted only if shorter (Lmin > L) and
     updates Lmin
R14g cached-path typestate (shared with C07/R07g): firstTime is cleared only after path was assigned
"""
import itertools
import re
from fractions import Fraction
from engine import facts, sym, lin
from engine.facts import AnalysisBroken, src
from engine.sym import Poly, Unsupported
from rules import c07

B = 'ompl::base::'
DUB = src('base', 'spaces', 'src', 'DubinsStateSpace.cpp')
RSC = src('base', 'spaces', 'src', 'ReedsSheppStateSpace.cpp')
UNITS = [DUB, RSC]
D, AL, BE = Poly.atom(('S', 'd')), Poly.atom(('S', 'alpha')), Poly.atom(('S', 'beta'))
WORDS = ['LSL', 'RSR', 'RSL', 'LSR', 'RLR', 'LRL']
MIRROR = {'LSL': 'RSR', 'RSR': 'LSL', 'RSL': 'RSL', 'LSR': 'LSR', 'RLR': 'LRL', 'LRL': 'RLR'}
SOLVER = lambda w: '(anon)::dubins' + w


def mod2pi_hook(args):
    """mod2pi(x + k*mod2pi(y)) == mod2pi(x + k*y) for integer k (congruence modulo 2*pi)"""
    p = args[0]
    if not isinstance(p, Poly):
        return None
    out = Poly()
    for m, c in p.t.items():
        if len(m) == 1 and m[0][1] == 1 and isinstance(m[0][0], tuple) and m[0][0][0] == 'call' and \
                m[0][0][1].endswith('mod2pi') and c.denominator == 1:
            out = out + sym.from_key(m[0][0][3]).scale(c)
        else:
            out = out + Poly({m: c})
    return Poly.atom(('call', '(anon)::mod2pi', None, out.key()))


class Machine(sym.Machine):
    def call(self, fn, n, st):
        callee = n.get('callee') or ''
        if callee.endswith('mod2pi') and len(n['ch']) == 1:
            a = self.num(self.load(self.loadv(self.ev(fn, n['ch'][0], st), st), st))
            return mod2pi_hook([a])
        return super().call(fn, n, st)


def nf(F, name, args, deny=(), facts_=(), nparams=None):
    fs = [x for x in F.by_name.get(name, []) if x.body and (nparams is None or len(x.params) == nparams)]
    if not fs:
        raise AnalysisBroken('anchor function vanished: ' + name)
    f = fs[0]
    ctx = sym.Ctx(inline=sym.resolver(F, deny=('mod2pi', 'dubinsPathType') + tuple(deny)))
    m = Machine(F, ctx)
    st = {'env': {}, 'heap': [], 'alias': {}, 'this': ('T',), 'facts': list(facts_)}
    for p, v in zip(f.params, args):
        st['env'][p['did']] = v
    r = m.block(f, [f.body], st)
    return f, (None if r is sym.FALL else r), st


def swap_ab(x):
    """substitute alpha <-> beta in a normal form"""
    def f(a):
        if a == ('S', 'alpha'):
            return BE
        if a == ('S', 'beta'):
            return AL
        return None
    if isinstance(x, Poly):
        return x.subst(f)
    return sym._subst_atom(x, f)


# ---------------------------------------------------------------------------------------------------------------------


def r14a(rep, F):
    rep.rule('R14a', 'dubinsExhaustive: its normal form (word solvers and length() opaque) evaluated on all 4683 weak orderings of '
                     'the six word lengths returns a word whose length is minimal; all six solvers occur')
    f, r, st = nf(F, '(anon)::dubinsExhaustive', (D, AL, BE), deny=['dubins' + w for w in WORDS] + ['length'])
    occurring = set(re.findall(r"\(anon\)::dubins([LRS]{3})", repr(r)))
    rep.add('R14a', f.name, 'all-six-words', occurring == set(WORDS), f.where(f.nodes[f.body]),
            'LSL, RSR, RSL, LSR, RLR, LRL are all candidates' if occurring == set(WORDS) else
            'candidates are only %s' % sorted(occurring))
    bad = None
    n = 0

    def word_of(v):
        m = re.search(r"dubins([LRS]{3})", repr(v))
        return m.group(1) if m else None
    for ranks in itertools.product(range(6), repeat=6):
        if set(ranks) != set(range(max(ranks) + 1)):
            continue                      # canonical weak orderings only (4683 of them)
        rk = dict(zip(WORDS, ranks))

        def val(a):
            if isinstance(a, tuple) and a and a[0] == 'call':
                if a[1].endswith('::length'):
                    return rk.get(word_of(a[2]))
            if a == ('S', 'd'):
                return 10
            if isinstance(a, tuple) and a and a[0] == 'g':
                return Fraction(1, 1000000)
            if isinstance(a, tuple) and a and a[0] == 'app' and a[1] == 'fabs':
                return 1
            return None
        try:
            x = r
            while isinstance(x, tuple) and x and x[0] == 'ite':
                x = x[2] if sym.evaluate(x[1], val) else x[3]
        except Unsupported as e:
            raise AnalysisBroken('R14a: normal form of dubinsExhaustive is not evaluable: %s' % e)
        w = word_of(x)
        n += 1
        if w is None or rk[w] != min(ranks):
            bad = (rk, w)
            break
    rep.add('R14a', f.name, 'fold-is-a-minimum', bad is None, f.where(f.nodes[f.body]),
            'minimal word selected on all %d weak orderings of the six lengths' % n if bad is None else
            'with word lengths ranked %s the fold returns %s, which is not a shortest word' % (bad[0], bad[1]))


def table_rows(F):
    f = F.one(B + 'DubinsStateSpace::dubinsPathType')
    rows = []
    enum = {}
    for n in f.walk():
        if n['k'] == 'InitListExpr' and len(n['ch']) == 3:
            r = []
            for c in n['ch']:
                d = f.strip(c)
                if d is None or d['k'] != 'DeclRefExpr' or not (d.get('name') or '').startswith('DUBINS_'):
                    r = None
                    break
                r.append(d['name'].replace('DUBINS_', '')[0])
                enum[int(d['v'])] = d['name'].replace('DUBINS_', '')
            if r:
                rows.append(''.join(r))
    if len(rows) != 6:
        raise AnalysisBroken('dubinsPathType(): expected six rows of three segment types, found %d' % len(rows))
    return rows, enum


def solver_parts(F, w, args=(D, AL, BE)):
    """(condition, row, t, p, q) of the success return of dubinsW"""
    f, r, st = nf(F, SOLVER(w), args)
    if not (isinstance(r, tuple) and r and r[0] == 'ite' and isinstance(r[2], tuple) and r[2][0] == 'init' and len(r[2]) == 6):
        raise AnalysisBroken('%s: unexpected shape of the returned path' % SOLVER(w))
    init = r[2]
    row = init[2]
    k = None
    if isinstance(row, tuple) and row[0] == 'I' and 'dubinsPathType' in repr(row[1]):
        p = sym.from_key(row[2])
        if p.is_const():
            k = int(p.cval())
    return f, r[1], k, sym.from_key(init[3]), sym.from_key(init[4]), sym.from_key(init[5])


def r14b(rep, F):
    rep.rule('R14b', 'each word solver dubinsXYZ constructs DubinsPath(dubinsPathType()[k], t, p, q) with row k of the table spelling X, Y, Z')
    rows, _ = table_rows(F)
    for w in WORDS:
        f, c, k, t, p, q = solver_parts(F, w)
        ok = k is not None and 0 <= k < 6 and rows[k] == w
        rep.add('R14b', f.name, 'table-row', ok, f.where(f.nodes[f.body]),
                'row %d = %s' % (k, rows[k]) if ok else 'builds its path on row %s (%s), not on the row spelling %s' % (
                    k, rows[k] if k is not None and 0 <= k < 6 else '?', w))


def r14h(rep, F):
    rep.rule('R14h', 'helper formulas of the classification: NF(t_X) == t, NF(p_X) == p, NF(q_X) == q of the word solver dubinsX for '
                     'X in LSL, RSR, RSL, LSR (single- and double-precision library functions identified)')
    n = 0
    for w in ('LSL', 'RSR', 'RSL', 'LSR'):
        f, c, k, t, p, q = solver_parts(F, w)
        for nm, want in (('t', t), ('p', p), ('q', q)):
            g, got, st = nf(F, '(anon)::%s_%s' % (nm, w.lower()), (D, AL, BE))
            ok = isinstance(got, Poly) and got == want
            n += 1
            rep.add('R14h', g.name, 'agrees-with-' + SOLVER(w).split('::')[-1], ok, g.where(g.nodes[g.body]),
                    '== %s of %s' % (nm, w) if ok else '%s is %s but dubins%s computes %s = %s' % (
                        g.name, sym.show(got)[:200] if isinstance(got, Poly) else got, w, nm, sym.show(want)[:200]))
    rep.require_count('R14h', 'helper/solver pairs', n, 12)


def r14m(rep, F):
    rep.rule('R14m', 'reversal symmetry in normal form: dubinsW(d, alpha, beta) = (c, t, p, q) and dubinsMirror(W)(d, beta, alpha) = '
                     '(c, q, p, t); every cell a_ij of dubinsClassification at (alpha, beta) is the word-mirror of cell a_ji at '
                     '(beta, alpha), comparisons identified modulo their boundary')
    n = 0
    for w in WORDS:
        f, c, k, t, p, q = solver_parts(F, w)
        f2, c2, k2, t2, p2, q2 = solver_parts(F, MIRROR[w], (D, BE, AL))
        ok = c == c2 and t == q2 and p == p2 and q == t2
        n += 1
        what = []
        if c != c2:
            what.append('feasibility condition differs')
        if t != q2:
            what.append('t = %s but mirrored q = %s' % (sym.show(t)[:160], sym.show(q2)[:160]))
        if p != p2:
            what.append('p differs')
        if q != t2:
            what.append('q = %s but mirrored t = %s' % (sym.show(q)[:160], sym.show(t2)[:160]))
        rep.add('R14m', f.name, 'mirror-of-' + MIRROR[w], ok, f.where(f.nodes[f.body]),
                '(t, p, q)(alpha, beta) == (q, p, t) of dubins%s(beta, alpha)' % MIRROR[w] if ok else '; '.join(what))
    # classification table
    fs = [x for x in F.by_name.get('(anon)::dubinsClassification', []) if x.body]
    if not fs:
        raise AnalysisBroken('anchor function vanished: dubinsClassification')
    f = fs[0]
    sw = [x for x in f.walk() if x['k'] == 'SwitchStmt']
    if len(sw) != 1:
        raise AnalysisBroken('dubinsClassification: expected one switch')
    cases = switch_cases(f, sw[0])
    if len(cases) != 16:
        raise AnalysisBroken('dubinsClassification: expected 16 cells, found %d' % len(cases))
    pathvar = [d for x in f.walk() if x['k'] == 'DeclStmt' for d in x.get('decls', []) if d['name'] == 'path']
    if not pathvar:
        raise AnalysisBroken('dubinsClassification: local `path` vanished')
    pid = pathvar[0]['did']
    sym.LOOSE[0] = True
    try:
        cell = {}
        for cv, stmts in cases.items():
            for swapped in (False, True):
                ctx = sym.Ctx(inline=sym.resolver(F, deny=('mod2pi', 'dubinsPathType', 'length') + tuple('dubins' + w for w in WORDS)))
                m = Machine(F, ctx)
                m.allow_break = True
                st = {'env': {}, 'heap': [], 'alias': {}, 'this': ('T',), 'facts': []}
                for p, v in zip(f.params, (D, BE, AL) if swapped else (D, AL, BE)):
                    st['env'][p['did']] = v
                st['env'][pid] = ('undef', 'path')
                try:
                    r = m.block(f, stmts, st)
                except Unsupported as e:
                    raise AnalysisBroken('R14m: cell %d of dubinsClassification outside the fragment: %s' % (cv, e))
                cell[(cv, swapped)] = st['env'][pid]
        for cv in sorted(cases):
            i, j = cv // 4, cv % 4
            mv = j * 4 + i
            a = cell[(cv, False)]
            b = mirror_words(cell[(mv, True)])
            # exact tree equality, or the same guarded leaves when the priority between triggers of an else-if chain is
            # ignored (a14 / a41 test their two triggers in opposite order)
            ok = a == b or agree_modulo_priority(a, b)
            n += 1
            rep.add('R14m', f.name, 'cell-a%d%d' % (i + 1, j + 1), ok, f.where(f.nodes[stmts_first(cases[cv])]),
                    'a%d%d(alpha, beta) is the mirror of a%d%d(beta, alpha)' % (i + 1, j + 1, j + 1, i + 1) if ok else
                    'cell a%d%d selects %s but the mirror of a%d%d at (beta, alpha) selects %s%s' % (
                        i + 1, j + 1, brief(a), j + 1, i + 1, brief(b), sel_diff(a, b)))
    finally:
        sym.LOOSE[0] = False
    rep.require_count('R14m', 'mirror instances', n, 22)


def selectors(x, out):
    if isinstance(x, tuple) and x and x[0] == 'ite':
        out.add(x[1])
        selectors(x[2], out)
        selectors(x[3], out)
    return out


def leaves_of_tree(x, out):
    if isinstance(x, tuple) and x and x[0] == 'ite':
        leaves_of_tree(x[2], out)
        leaves_of_tree(x[3], out)
    else:
        out.add(x)
    return out


def tree_eval(x, asg):
    while isinstance(x, tuple) and x and x[0] == 'ite':
        x = x[2] if asg[x[1]] else x[3]
    return x


def agree_modulo_priority(a, b):
    """same selectors, and for some default assignment D the two trees agree on D and on every assignment that differs from
    D in one selector, reaching every leaf of both trees there -- i.e. the same word under each single trigger; what happens
    when two triggers fire together (the priority of an else-if chain) is not compared"""
    sa, sb = selectors(a, set()), selectors(b, set())
    if sa != sb or len(sa) > 8:
        return False
    sel = sorted(sa, key=repr)
    la, lb = leaves_of_tree(a, set()), leaves_of_tree(b, set())
    if la != lb:
        return False
    for bits in itertools.product((False, True), repeat=len(sel)):
        d = dict(zip(sel, bits))
        ball = [d] + [dict(list(d.items()) + [(s, not d[s])]) for s in sel]
        if all(tree_eval(a, x) == tree_eval(b, x) for x in ball) and set(tree_eval(a, x) for x in ball) == la:
            return True
    return False


def pos_leaves(x, pos=frozenset()):
    """(leaf, set of selectors taken on their then-side) for an ite tree"""
    if isinstance(x, tuple) and x and x[0] == 'ite':
        return pos_leaves(x[2], pos | {x[1]}) + pos_leaves(x[3], pos)
    return [(x, tuple(sorted(map(repr, pos))))]


def sel_diff(a, b):
    sa, sb = selectors(a, set()), selectors(b, set())
    if sa == sb:
        return '; same tests, different words or nesting'
    only_a = [sym.show_atom(x)[:220] for x in sa - sb]
    only_b = [sym.show_atom(x)[:220] for x in sb - sa]
    return '; test only here: %s; test only in the mirror: %s' % (only_a[:1], only_b[:1])


def stmts_first(stmts):
    return stmts[0]


def brief(x):
    s = repr(x)
    s = re.sub(r"\('call', '\(anon\)::dubins([LRS]{3})'[^)]*\)[^)]*\)[^)]*\)\)", r'\1', s)
    words = re.findall(r"dubins([LRS]{3})", repr(x))
    conds = re.findall(r"\(anon\)::(s_\w+|[tpq]_\w+)", repr(x))
    return 'a tree over words %s' % '/'.join(dict.fromkeys(words))


def mirror_words(x):
    """rename dubinsW(d, beta, alpha) -> dubinsMirror(W)(d, alpha, beta) inside a normal form"""
    if isinstance(x, tuple):
        if x and x[0] == 'call' and isinstance(x[1], str) and re.search(r'dubins[LRS]{3}$', x[1]):
            w = x[1][-3:]
            if tuple(x[3:]) != (D.key(), BE.key(), AL.key()):
                raise AnalysisBroken('R14m: a word solver is called with arguments other than (d, alpha, beta)')
            return ('call', x[1][:-3] + MIRROR[w], x[2], D.key(), AL.key(), BE.key())
        return tuple(mirror_words(y) for y in x)
    return x


def switch_cases(f, sw):
    """{case value: [statement ids up to the break]}"""
    body = f.nodes[sw['body']]
    out = {}
    cur = None
    for c in body['ch']:
        n = f.nodes[c]
        if n['k'] == 'CaseStmt':
            cv = f.nodes[n['case']].get('cv')
            if cv is None:
                cv = (f.strip(n['case']) or {}).get('cv')
            if cv is None:
                raise AnalysisBroken('case label without a constant value at ' + f.where(n))
            cur = int(cv)
            out[cur] = []
            sub = n.get('sub')
            while sub and f.nodes[sub]['k'] == 'CaseStmt':          # stacked labels are not expected here
                raise AnalysisBroken('stacked case labels at ' + f.where(n))
            if sub:
                out[cur].append(sub)
        elif n['k'] == 'DefaultStmt':
            cur = 'default'
            out[cur] = [n.get('sub')] if n.get('sub') else []
        elif cur is not None:
            out[cur].append(c)
    return out


# ---------------------------------------------------------------------------------------------------------------------
# integrators


def diff(p, x):
    """d p / d x for polynomials over sin/cos atoms"""
    out = Poly()
    for m, c in p.t.items():
        for i, (a, e) in enumerate(m):
            da = datom(a, x)
            if not da.t:
                continue
            rest = Poly({tuple(m[:i] + ((a, e - 1),) * (1 if e != 1 else 0) + m[i + 1:]): c * e})
            out = out + rest * da
    return out


def datom(a, x):
    if a == x:
        return Poly.const(1)
    if isinstance(a, tuple) and a and a[0] == 'app' and a[1] in ('sin', 'cos') and len(a) == 3:
        inner = sym.from_key(a[2])
        di = diff(inner, x)
        if not di.t:
            return Poly()
        if a[1] == 'sin':
            return Poly.atom(('app', 'cos', a[2])) * di
        return -Poly.atom(('app', 'sin', a[2])) * di
    if isinstance(a, tuple) and sym._mentions(a, lambda y: y == x):
        raise Unsupported('cannot differentiate %s' % sym.show_atom(a))
    return Poly()


def fn_app(name, p):
    """canonical sin/cos atom (evenness / oddness applied)"""
    m = sym.Machine(None, sym.Ctx())
    return m.app(name, [p])


def integrator_cases(F, f, loop, enum):
    """for one for-loop of an integrator: {segment type name: (x', y', yaw')} in terms of X0, Y0, phi, v"""
    sw = [x for x in f.walk(loop['id']) if x['k'] == 'SwitchStmt']
    if len(sw) != 1:
        raise AnalysisBroken('integrator loop without exactly one switch at ' + f.where(loop))
    cases = switch_cases(f, sw[0])
    locs = {d['name']: d['did'] for x in f.walk() if x['k'] == 'DeclStmt' for d in x.get('decls', [])}
    for need in ('s', 'phi', 'v'):
        if need not in locs:
            raise AnalysisBroken('integrator local %s vanished in %s' % (need, f.name))
    out = {}
    for cv, stmts in cases.items():
        ctx = sym.Ctx(inline=None)
        m = sym.Machine(F, ctx)
        m.allow_break = True
        st = {'env': {}, 'heap': [], 'alias': {}, 'this': ('T',), 'facts': []}
        st['env'][locs['s']] = ('S', 's')
        st['env'][locs['phi']] = Poly.atom(('S', 'phi'))
        st['env'][locs['v']] = Poly.atom(('S', 'v'))
        for p in f.params:
            st['env'][p['did']] = ('S', p['name'])
        try:
            m.block(f, stmts, st)
        except Unsupported as e:
            raise AnalysisBroken('integrator case outside the fragment at %s: %s' % (f.where(f.nodes[stmts[0]]) if stmts else f.name, e))
        x = y = yaw = None
        for k, v, q in st['heap']:
            if k[0] == 'E' and k[1].endswith('::setXY') and k[2] == ('S', 's'):
                x, y = sym.from_key(k[3]), sym.from_key(k[4])
            elif k[0] == 'E' and k[1].endswith('::setYaw') and k[2] == ('S', 's'):
                yaw = sym.from_key(k[3])
            else:
                raise AnalysisBroken('unexpected effect in an integrator case: %r' % (k[:2],))
        out[enum.get(cv, cv)] = (x, y, yaw)
    return sw[0], out


def integrator_fn(F, rec):
    fs = [x for x in F.by_name.get(B + rec + '::interpolate', []) if x.body and any(p['ty'].startswith('const') and p['ty'].endswith('Path &')
                                                                                   for p in x.params)]
    if len(fs) != 1:
        raise AnalysisBroken('anchor vanished: %s::interpolate(from, path, t, state)' % rec)
    return fs[0]


def getter(name):
    return Poly.atom(('call', B + 'SE2StateSpace::StateType::' + name, ('S', 's')))


def r14dk(rep, F):
    rep.rule('R14d', 'integrators (DubinsStateSpace::interpolate(from, path, t, state, radius), ReedsSheppStateSpace::interpolate(from, '
                     'path, t, state)): the switch has a case for every segment type that occurs in the word table; in every loop the '
                     'segment length and the segment type are read at the same index (linear normal form); the loop drives every segment of the '
                     'word in order (the index sequence is evaluated from the loop header: 0, 1, 2 forwards, 2, 1, 0 on Dubins\' reverse '
                     'traversal, 0..4 for Reeds-Shepp); each reverse case is the forward case with v -> -v')
    rep.rule('R14k', 'vehicle model: for each case, with (x\', y\', yaw\') the pose written and (X0, Y0, phi) the pose read: '
                     'd x\'/dv == s*cos(yaw\'), d y\'/dv == s*sin(yaw\'), d yaw\'/dv == s*kappa with kappa = +1 LEFT, -1 RIGHT, 0 STRAIGHT '
                     '(s = -1 on Dubins\' reverse traversal, +1 otherwise), and x\' = X0, y\' = Y0, yaw\' = phi at v = 0; after the loop '
                     'the pose is scaled by the turning radius and translated by from, the yaw is copied unscaled')
    rows, denum = table_rows(F)
    X0, Y0, PHI, V = getter('getX'), getter('getY'), Poly.atom(('S', 'phi')), Poly.atom(('S', 'v'))
    nd = nk = 0
    for rec, np_, enum, used in (('DubinsStateSpace', 5, denum, set(''.join(rows))), ('ReedsSheppStateSpace', 4, None, None)):
        f = integrator_fn(F, rec)
        if enum is None:
            enum, used = rs_table_enum()
        loops = [x for x in f.walk() if x['k'] == 'ForStmt']
        if len(loops) != (2 if rec == 'DubinsStateSpace' else 1):
            raise AnalysisBroken('%s: unexpected number of integration loops (%d)' % (f.name, len(loops)))
        per_loop = []
        for li, loop in enumerate(loops):
            sw, cases = integrator_cases(F, f, loop, enum)
            per_loop.append(cases)
            # exhaustive
            have = set(str(k)[0] if isinstance(k, str) else k for k in cases)
            missing = sorted(set(used) - have)
            nd += 1
            rep.add('R14d', f.name, 'loop%d/exhaustive' % li, not missing, f.where(sw),
                    'cases for %s' % sorted(cases) if not missing else 'no case for segment type(s) %s' % missing)
            # index agreement
            tidx = type_index(f, sw)
            lidx = length_indices(f, loop)
            ok = tidx is not None and lidx and all(lin.canon(x) == lin.canon(tidx) for x in lidx)
            nd += 1
            rep.add('R14d', f.name, 'loop%d/index-agreement' % li, ok, f.where(sw),
                    'length_ and type_ both at %s' % lin.show(tidx) if ok else
                    'segment length read at %s but segment type at %s' % ([lin.show(x) for x in lidx], lin.show(tidx) if tidx else '?'))
            # segment coverage: the loop drives every segment of the word, first to last (last to first on Dubins' reverse traversal)
            nseg = 3 if rec == 'DubinsStateSpace' else 5
            from engine.shape import for_loop
            idx_, start_, _c, stride_ = for_loop(f, loop)
            seq = None
            if idx_ is not None and start_ is not None and set(start_) <= {1} and stride_ in (1, -1) and loop.get('cond') and tidx is not None:
                bound = None
                stack = [loop['cond']]
                while stack:
                    e = f.strip(stack.pop())
                    if e is None:
                        continue
                    if e['k'] == 'BinaryOperator' and e.get('op') == '&&':
                        stack.extend(e['ch'])
                    elif e['k'] == 'BinaryOperator' and e.get('op') in ('<', '<=', '>', '>=', '!='):
                        l_, r_ = lin.lin(f, e['ch'][0]), lin.lin(f, e['ch'][1])
                        if l_ == {idx_: 1} and r_ is not None and set(r_) <= {1}:
                            bound = (e['op'], r_.get(1, 0))
                if bound is not None:
                    seq, i_ = [], start_.get(1, 0)
                    test = {'<': lambda a, b: a < b, '<=': lambda a, b: a <= b, '>': lambda a, b: a > b, '>=': lambda a, b: a >= b,
                            '!=': lambda a, b: a != b}[bound[0]]
                    while test(i_, bound[1]) and len(seq) < 12 and i_ >= 0:     # unsigned index: i >= 0 always holds
                        seq.append(sum(v * (i_ if k == idx_ else 1) for k, v in tidx.items() if k in (idx_, 1)))
                        i_ += stride_
                    if any(k not in (idx_, 1) for k in tidx):
                        seq = None
            if seq is None:
                raise AnalysisBroken('R14d: iteration range of integration loop %d of %s not recognised' % (li, f.name))
            want_seq = list(range(nseg)) if not (rec == 'DubinsStateSpace' and li == 1) else list(range(nseg - 1, -1, -1))
            nd += 1
            rep.add('R14d', f.name, 'loop%d/segment-coverage' % li, seq == want_seq, f.where(loop),
                    'drives segments %s in this order' % seq if seq == want_seq else
                    'the loop drives segments %s, the word has segments %s in this traversal: the curve stops short of the target and jumps '
                    'there at t = 1' % (seq, want_seq))
            # vehicle model
            sgn = -1 if (rec == 'DubinsStateSpace' and li == 1) else 1
            for name, (x, y, yaw) in sorted(cases.items(), key=lambda kv: str(kv[0])):
                kind = str(name)[0]
                if kind == 'N':
                    ok = x is None and y is None and yaw is None
                    nk += 1
                    rep.add('R14k', f.name, 'loop%d/%s' % (li, name), ok, f.where(sw), 'no motion' if ok else 'NOP segment moves the pose')
                    continue
                kappa = {'L': 1, 'R': -1, 'S': 0}.get(kind)
                if kappa is None or x is None or y is None:
                    raise AnalysisBroken('integrator case %s of %s has no setXY' % (name, f.name))
                yaw_ = yaw if yaw is not None else PHI
                try:
                    dx, dy, dyaw = diff(x, ('S', 'v')), diff(y, ('S', 'v')), diff(yaw_, ('S', 'v'))
                except Unsupported as e:
                    raise AnalysisBroken('R14k: %s' % e)
                at0 = lambda p: p.subst(lambda a: Poly() if a == ('S', 'v') else None)
                # re-canonicalise sin/cos atoms after substitution
                probs = []
                if dx != fn_app('cos', yaw_).scale(sgn):
                    probs.append('dx/dv = %s, expected %s*cos(%s)' % (sym.show(dx), sgn, sym.show(yaw_)))
                if dy != fn_app('sin', yaw_).scale(sgn):
                    probs.append('dy/dv = %s, expected %s*sin(%s)' % (sym.show(dy), sgn, sym.show(yaw_)))
                if dyaw != Poly.const(sgn * kappa):
                    probs.append('dyaw/dv = %s, expected %d' % (sym.show(dyaw), sgn * kappa))
                if renorm(at0(x)) != X0 or renorm(at0(y)) != Y0 or renorm(at0(yaw_)) != PHI:
                    probs.append('pose at v = 0 is not the old pose')
                nk += 1
                rep.add('R14k', f.name, 'loop%d/%s' % (li, name), not probs, f.where(sw),
                        'unit-curvature %s segment' % name if not probs else '; '.join(probs))
        if rec == 'DubinsStateSpace':
            # reverse loop = forward loop with v -> -v
            fw, bw = per_loop
            for name in sorted(fw, key=str):
                neg = lambda p: None if p is None else renorm(p.subst(lambda a: -Poly.atom(('S', 'v')) if a == ('S', 'v') else None))
                want = tuple(neg(p) for p in fw[name])
                ok = name in bw and all((a is None and b is None) or (a is not None and b is not None and a == b) for a, b in zip(bw[name], want))
                nd += 1
                rep.add('R14d', f.name, 'reverse-is-forward(-v)/%s' % name, ok, f.where(loops[1]),
                        'mirror of the forward case' if ok else 'reverse %s case is not the forward case with v -> -v' % name)
        # final stores
        ok, detail = final_stores(F, f, rec)
        nk += 1
        rep.add('R14k', f.name, 'scale-and-translate', ok, f.where(f.nodes[f.body]), detail)
    rep.require_count('R14d', 'integrator shape obligations', nd, 9)
    rep.require_count('R14k', 'vehicle-model obligations', nk, 12)


def renorm(p):
    """re-apply the function laws (sin(0) = 0, cos(0) = 1, evenness) after a substitution"""
    m = sym.Machine(None, sym.Ctx())
    out = Poly()
    for mono, c in p.t.items():
        term = Poly.const(c)
        for a, e in mono:
            if isinstance(a, tuple) and a and a[0] == 'app' and a[1] in ('sin', 'cos') and len(a) == 3:
                v = m.app(a[1], [renorm(sym.from_key(a[2]))])
            else:
                v = Poly.atom(a)
            for _ in range(e):
                term = term * v
        out = out + term
    return out


def type_index(f, sw):
    c = f.strip(sw['cond'])
    while c is not None and c['k'] == 'ImplicitCastExpr':
        c = f.strip(c['ch'][0])
    if c is None:
        return None
    if c.get('callee') == 'std::vector::at' and len(c['ch']) == 2:
        return lin.lin(f, c['ch'][1])
    if c['k'] == 'ArraySubscriptExpr':
        return lin.lin(f, c['ch'][1])
    return None


def length_indices(f, loop):
    out = []
    for n in f.walk(loop['id']):
        if n['k'] == 'ArraySubscriptExpr':
            b = f.strip(n['ch'][0])
            if b is not None and b['k'] == 'MemberExpr' and b.get('name') == 'length_':
                out.append(lin.lin(f, n['ch'][1]))
    return out


def rs_table_enum():
    txt = open(RSC).read()
    m = re.search(r'reedsSheppPathType\[18\]\[5\]\s*=\s*\{(.*?)\n\};', txt, re.S)
    if not m:
        raise AnalysisBroken('reedsSheppPathType table not found')
    rows = re.findall(r'\{([^{}]*)\}', m.group(1))
    rows = [[x.strip().replace('RS_', '') for x in r.split(',')] for r in rows]
    if len(rows) != 18 or any(len(r) != 5 for r in rows):
        raise AnalysisBroken('reedsSheppPathType: expected 18 rows of 5')
    h = open(src('base', 'spaces', 'ReedsSheppStateSpace.h')).read()
    em = re.search(r'enum\s+ReedsSheppPathSegmentType\s*\{([^}]*)\}', h)
    if not em:
        raise AnalysisBroken('ReedsSheppPathSegmentType not found')
    enum = {}
    nxt = 0
    for item in em.group(1).split(','):
        item = item.strip()
        if not item:
            continue
        if '=' in item:
            nm, v = item.split('=')
            nxt = int(v.strip(), 0)
            item = nm.strip()
        enum[nxt] = item.replace('RS_', '')
        nxt += 1
    rs_table_enum.rows = rows
    return enum, set(x[0] for r in rows for x in r)


def final_stores(F, f, rec):
    """after the loops: state.x = s.x * radius + from.x, state.y likewise, state.yaw = s.yaw"""
    body = f.nodes[f.body]
    tail = []
    seen_loop = False
    for c in body['ch']:
        n = f.nodes[c]
        if any(x['k'] == 'ForStmt' for x in f.walk(c)):
            seen_loop = True
            tail = []
            continue
        if seen_loop:
            tail.append(c)
    locs = {d['name']: d['did'] for x in f.walk() if x['k'] == 'DeclStmt' for d in x.get('decls', [])}
    m = sym.Machine(F, sym.Ctx(inline=None))
    st = {'env': {}, 'heap': [], 'alias': {}, 'this': ('T',), 'facts': []}
    st['env'][locs['s']] = ('S', 's')
    for p in f.params:
        st['env'][p['did']] = ('S', p['name']) if not sym.is_arith(p['ty']) else Poly.atom(('S', p['name']))
    try:
        m.block(f, tail, st)
    except Unsupported as e:
        raise AnalysisBroken('final stores of %s outside the fragment: %s' % (f.name, e))
    sx = sy = syaw = None
    for k, v, q in st['heap']:
        if k[0] == 'E' and k[2] == ('S', 'state'):
            if k[1].endswith('::setX'):
                sx = sym.from_key(k[3])
            elif k[1].endswith('::setY'):
                sy = sym.from_key(k[3])
            elif k[1].endswith('::setYaw'):
                syaw = sym.from_key(k[3])
            elif k[1].endswith('::setXY'):
                sx, sy = sym.from_key(k[3]), sym.from_key(k[4])
    g = lambda o, nme: Poly.atom(('call', B + 'SE2StateSpace::StateType::' + nme, o))
    rad = Poly.atom(('S', 'radius')) if rec == 'DubinsStateSpace' else Poly.atom(('rd', ('F', ('T',), 'rho_')))
    S, FR = ('S', 's'), ('S', 'from')
    ok = sx == g(S, 'getX') * rad + g(FR, 'getX') and sy == g(S, 'getY') * rad + g(FR, 'getY') and syaw == g(S, 'getYaw')
    return ok, ('state = (s.x * radius + from.x, s.y * radius + from.y, s.yaw)' if ok else
                'final stores are x = %s, y = %s, yaw = %s' % tuple(sym.show(p) if p is not None else 'unset' for p in (sx, sy, syaw)))


# ---------------------------------------------------------------------------------------------------------------------


def r14c(rep, F):
    rep.rule('R14c', 'one path for distance and curve: on a first call interpolate() selects dubins(from, to), or with isSymmetric_ the '
                     'shorter of dubins(from, to) and dubins(to, from) with reverse_ set exactly when the second is taken; for every '
                     'ordering of the two lengths rho_ * length(selected) equals the normal form of distance(from, to). '
                     'Reeds-Shepp: distance and interpolate call reedsShepp with the same argument order')
    A, Bs = ('S', 'A'), ('S', 'B')
    # Dubins
    f = c07.interp_fn(F, 'DubinsStateSpace', 6)
    deny = ('dubins', 'length', 'interpolate', 'copyState')
    pathp = [p for p in f.params if p['ty'].endswith('Path &')][0]
    symflag = Poly.atom(('rd', ('F', ('T',), 'isSymmetric_')))
    dist_f = [x for x in F.by_name.get(B + 'DubinsStateSpace::distance', []) if x.body and len(x.params) == 2 and x.sig.endswith('const')][0]
    for symmetric in (True, False):
        fact = sym.cmp0('ne0', symflag, None)
        facts_ = [fact if symmetric else sym.b_not(fact)]
        ctx = sym.Ctx(inline=sym.resolver(F, deny=deny))
        m = sym.Machine(F, ctx)
        m.split = 'all'
        st = {'env': {}, 'heap': [], 'alias': {}, 'this': ('T',), 'facts': list(facts_)}
        for p, v in zip(f.params, (A, Bs, Poly.atom(('S', 't')), True, ('S', 'PATH'), ('S', 'OUT'))):
            st['env'][p['did']] = v
        # t strictly inside (0, 1): fold the short-cuts
        tt = Poly.atom(('S', 't'))
        ctx.lt0 += [-tt, tt - Poly.const(1)]
        try:
            r = m.block(f, [f.body], st)
            leaves = sym.leaves(r, st)
            dm = sym.Machine(F, sym.Ctx(inline=sym.resolver(F, deny=('dubins', 'length'))))
            dst = {'env': {}, 'heap': [], 'alias': {}, 'this': ('T',), 'facts': list(facts_)}
            for p, v in zip(dist_f.params, (A, Bs)):
                dst['env'][p['did']] = v
            dnf = dm.block(dist_f, [dist_f.body], dst)
        except Unsupported as e:
            raise AnalysisBroken('R14c: outside the fragment: %s' % e)
        bad = []
        rho = Poly.atom(('rd', ('F', ('T',), 'rho_')))
        for facts__, lst, lr in leaves:
            sel = lst['env'][pathp['did']]
            if not (isinstance(sel, tuple) and sel and sel[0] == 'call' and sel[1].endswith('::dubins')):
                bad.append('the path handed to the integrator is not a dubins(...) result: %r' % (sel,))
                continue
            direction = tuple(sel[3:5])
            rev = [(k, v) for k, v, q in lst['heap'] if k[0] == 'F' and k[2] == 'reverse_']
            marked = any(k[1] == sel and (v is True or (isinstance(v, Poly) and v == Poly.const(1))) for k, v in rev)
            if direction == (A, Bs) and marked:
                bad.append('forward path marked reverse_')
            if direction == (Bs, A) and not marked:
                bad.append('dubins(to, from) selected without reverse_ = true')
            if direction not in ((A, Bs), (Bs, A)):
                bad.append('dubins called on %s' % (direction,))
            # rho * length(sel) == distance for the orderings consistent with this leaf
            for lab, lba in ((1, 2), (2, 2), (2, 1)):
                def val(a, lab=lab, lba=lba):
                    if isinstance(a, tuple) and a and a[0] == 'call' and a[1].endswith('::length'):
                        d_ = tuple(a[2][3:5])
                        return lab if d_ == (A, Bs) else (lba if d_ == (Bs, A) else None)
                    if a == ('rd', ('F', ('T',), 'rho_')):
                        return 3
                    if isinstance(a, tuple) and a and a[0] == 'app' and a[1] == 'min':
                        return min(sym.evaluate(sym.from_key(x), val) for x in a[2:])
                    if a == ('rd', ('F', ('T',), 'isSymmetric_')):
                        return 1 if symmetric else 0
                    return None
                try:
                    if not all(sym.evaluate(c, val) for c in facts__ if c not in facts_):
                        continue
                    dv = sym.evaluate(dnf, val)
                    lv = 3 * (lab if direction == (A, Bs) else lba)
                except Unsupported as e:
                    raise AnalysisBroken('R14c: %s' % e)
                if dv != lv:
                    bad.append('with |a->b| %s |b->a| the curve has length %s but distance() reports %s' % (
                        '<' if lab < lba else ('=' if lab == lba else '>'), lv, dv))
        rep.add('R14c', f.name, 'symmetric' if symmetric else 'asymmetric', not bad and bool(leaves), f.where(f.nodes[f.body]),
                'selected path has the reported length on %d path(s)' % len(leaves) if not bad else '; '.join(bad[:2]))
    # Reeds-Shepp
    f = c07.interp_fn(F, 'ReedsSheppStateSpace', 6)
    calls_i = [f.fp(c['id']) for c in f.walk() if (c.get('callee') or '').endswith('ReedsSheppStateSpace::reedsShepp')]
    g = [x for x in F.by_name.get(B + 'ReedsSheppStateSpace::distance', []) if x.body][0]
    calls_d = [g.fp(c['id']) for c in g.walk() if (c.get('callee') or '').endswith('ReedsSheppStateSpace::reedsShepp')]
    norm = lambda s: re.sub(r'#\d+', '', s).replace('from', 'P1').replace('state1', 'P1').replace('to', 'P2').replace('state2', 'P2')
    ok = len(calls_i) == 1 and len(calls_d) == 1 and norm(calls_i[0]) == norm(calls_d[0])
    rep.add('R14c', f.name, 'same-solver-call', ok, f.where(f.nodes[f.body]),
            'distance and interpolate both use reedsShepp(first, second)' if ok else
            'distance uses %s but interpolate uses %s' % (calls_d, calls_i))


def r14e(rep, F):
    rep.rule('R14e', 'Reeds-Shepp families (CSC, CCC, CCCC, CCSC, CCSCC): candidates come in groups of four built from one formula F and '
                     'one base point (x, y) or (xb, yb): F(x, y, phi), F(-x, y, -phi), F(x, -y, -phi), F(-x, -y, phi).  Within a group: '
                     'the timeflip candidate has every segment length of its partner negated and the same table row; the reflect '
                     'candidates use the row obtained by exchanging LEFT and RIGHT; every candidate is guarded by Lmin > (L = sum of |segment lengths| without the constant quarter turns) '
                     'and, unless it is the last of its function, sets Lmin = L')
    enum, used = rs_table_enum()
    rows = rs_table_enum.rows
    swapLR = lambda r: [{'LEFT': 'RIGHT', 'RIGHT': 'LEFT'}.get(x, x) for x in r]
    ngroups = 0
    for fam in ('CSC', 'CCC', 'CCCC', 'CCSC', 'CCSCC'):
        fs = [x for x in F.by_name.get('(anon)::' + fam, []) if x.body]
        if not fs:
            raise AnalysisBroken('anchor function vanished: ' + fam)
        f = fs[0]
        cands = []
        top = [f.nodes[c] for c in f.nodes[f.body]['ch']]
        ifs = [n for n in top if n['k'] == 'IfStmt']
        for idx, n in enumerate(ifs):
            cond = f.strip(n['cond'])
            if cond is None or cond.get('op') != '&&':
                raise AnalysisBroken('%s: candidate guard is not `F(...) && Lmin > (L = ...)` at %s' % (fam, f.where(n)))
            call = f.strip(cond['ch'][0])
            if call is None or call['k'] != 'CallExpr' or len(call['ch']) != 6:
                raise AnalysisBroken('%s: unexpected formula call at %s' % (fam, f.where(n)))
            sig = []
            base = []
            for a in call['ch'][:3]:
                an = f.strip(a)
                neg = False
                if an['k'] == 'UnaryOperator' and an.get('op') == '-':
                    neg = True
                    an = f.strip(an['ch'][0])
                if an['k'] != 'DeclRefExpr':
                    raise AnalysisBroken('%s: formula argument is not +-variable at %s' % (fam, f.where(n)))
                sig.append(-1 if neg else 1)
                base.append(an['name'])
            # guard:  Lmin > (L = fabs(t) + fabs(u) + fabs(v))
            g = f.strip(cond['ch'][1])
            gok = g is not None and g.get('op') == '>' and (f.strip(g['ch'][0]) or {}).get('name') == 'Lmin'
            lnf = None
            if gok:
                asg = f.strip(g['ch'][1])
                gok = asg is not None and asg.get('op') == '=' and (f.strip(asg['ch'][0]) or {}).get('name') == 'L'
                if gok:
                    lnf = arg_nf(f, asg['ch'][1])
            # construction
            ctor = [c for c in f.walk(n['then']) if c['k'] in ('CXXConstructExpr', 'CXXTemporaryObjectExpr') and
                    (c.get('callee') or '').endswith('ReedsSheppPath::ReedsSheppPath') and len(c['ch']) >= 4]
            if not ctor:
                raise AnalysisBroken('%s: no ReedsSheppPath construction at %s' % (fam, f.where(n)))
            c0 = ctor[0]
            row = None
            for x in f.walk(c0['ch'][0]):
                if x['k'] == 'ArraySubscriptExpr':
                    l = lin.lin(f, x['ch'][1])
                    if l is not None and set(l.keys()) <= {1}:
                        row = l.get(1, 0)
            lens = []
            for a in c0['ch'][1:]:
                an = f.nodes[a]
                if an['k'] == 'CXXDefaultArgExpr':
                    continue
                lens.append(arg_nf(f, a))
            sets_lmin = any(x['k'] == 'BinaryOperator' and x.get('op') == '=' and (f.strip(x['ch'][0]) or {}).get('name') == 'Lmin' and
                            (f.strip(x['ch'][1]) or {}).get('name') == 'L' for x in f.walk(n['then']))
            if gok:
                # L is the length of the candidate without its constant quarter turns
                mm = sym.Machine(None, sym.Ctx())
                tot = sum((mm.app('fabs', [p]) for p in lens if not p.is_const() and
                           not all(a in sym.CONSTS or (isinstance(a, tuple) and a[0] == 'g') for a in p.atoms())), Poly())
                gok = lnf == tot
            cands.append({'fn': call.get('callee'), 'sig': tuple(sig), 'base': tuple(base), 'row': row, 'lens': lens, 'guard': gok,
                          'lmin': sets_lmin, 'node': n, 'last': idx == len(ifs) - 1})
        # groups of four consecutive candidates
        i = 0
        while i < len(cands):
            grp = cands[i:i + 4]
            i += 4
            where = f.where(grp[0]['node'])
            role = '%s/%s@%d' % (fam, (grp[0]['fn'] or '').split('::')[-1], f.line(grp[0]['node']))
            probs = []
            if len(grp) != 4 or len(set(c['fn'] for c in grp)) != 1:
                probs.append('not a group of four candidates of one formula')
            else:
                want_sig = [(1, 1, 1), (-1, 1, -1), (1, -1, -1), (-1, -1, 1)]
                if [c['sig'] for c in grp] != want_sig:
                    probs.append('argument signs are %s, expected base / timeflip / reflect / both = %s' % ([c['sig'] for c in grp], want_sig))
                if len(set(c['base'][:2] for c in grp)) != 1 or any(c['base'][2] != 'phi' for c in grp):
                    probs.append('the four variants do not share one base point')
                b, tf, rf, both = grp
                if any(c['row'] is None for c in grp):
                    probs.append('table row is not a constant')
                else:
                    if tf['row'] != b['row'] or both['row'] != rf['row']:
                        probs.append('timeflip variant on a different table row (%s/%s, %s/%s)' % (b['row'], tf['row'], rf['row'], both['row']))
                    if rows[rf['row']] != swapLR(rows[b['row']]):
                        probs.append('reflect row %d is not the LEFT<->RIGHT mirror of row %d' % (rf['row'], b['row']))
                neg = lambda ls: [(-p) for p in ls]
                if len(b['lens']) != len(tf['lens']) or [p.key() for p in tf['lens']] != [p.key() for p in neg(b['lens'])]:
                    probs.append('timeflip lengths are not the negated base lengths')
                if [p.key() for p in rf['lens']] != [p.key() for p in b['lens']]:
                    probs.append('reflect lengths differ from the base lengths')
                if [p.key() for p in both['lens']] != [p.key() for p in neg(rf['lens'])]:
                    probs.append('timeflip+reflect lengths are not the negated reflect lengths')
                for c in grp:
                    if not c['guard']:
                        probs.append('candidate at line %d is not guarded by Lmin > (L = sum of |segment lengths| without the constant quarter turns)' % f.line(c['node']))
                    if not c['lmin'] and not c['last']:
                        probs.append('candidate at line %d does not update Lmin' % f.line(c['node']))
            ngroups += 1
            rep.add('R14e', f.name, role, not probs, where, 'base/timeflip/reflect/both consistent' if not probs else '; '.join(probs[:3]))
    rep.require_count('R14e', 'symmetry groups', ngroups, 11)


def arg_nf(f, nid):
    """normal form of a constructor argument over the local names t, u, v and pi"""
    m = sym.Machine(None, sym.Ctx(inline=None))
    st = {'env': {}, 'heap': [], 'alias': {}, 'this': ('T',), 'facts': []}
    for x in f.walk(nid):
        if x['k'] == 'DeclRefExpr' and x.get('dk') in ('Local', 'Parm') and x.get('did') not in st['env']:
            st['env'][x['did']] = Poly.atom(('S', x['name']))
    try:
        v = m.load(m.loadv(m.ev(f, nid, st), st), st)
    except Unsupported as e:
        raise AnalysisBroken('segment length outside the fragment at %s: %s' % (f.where(f.nodes[nid]), e))
    return m.num(v)


def r14f(rep, F):
    rep.rule('R14f', 'DubinsPath::length() is length_[0] + length_[1] + length_[2]; ReedsSheppPath stores totalLength_ = sum of |length_[i]| '
                     'of the five constructor arguments and length() returns it; distance() = rho_ * length()')
    P = ('S', 'P')
    fs = [x for x in F.by_name.get(B + 'DubinsStateSpace::DubinsPath::length', []) if x.body]
    if not fs:
        raise AnalysisBroken('anchor vanished: DubinsPath::length')
    m = sym.Machine(F, sym.Ctx(inline=None))
    st = {'env': {}, 'heap': [], 'alias': {}, 'this': P, 'facts': []}
    r = m.block(fs[0], [fs[0].body], st)
    want = sum((Poly.atom(('rd', ('I', ('F', P, 'length_'), Poly.const(i).key()))) for i in range(3)), Poly())
    rep.add('R14f', fs[0].name, 'sum-of-three', r == want, fs[0].where(fs[0].nodes[fs[0].body]),
            'length_[0] + length_[1] + length_[2]' if r == want else 'length() is %s' % sym.show(r))
    ct = [x for x in F.by_name.get(B + 'ReedsSheppStateSpace::ReedsSheppPath::ReedsSheppPath', []) if x.body]
    if not ct:
        raise AnalysisBroken('anchor vanished: ReedsSheppPath constructor')
    c = ct[0]
    m = sym.Machine(F, sym.Ctx(inline=None))
    st = {'env': {}, 'heap': [], 'alias': {}, 'this': P, 'facts': []}
    names = []
    for p in c.params:
        if sym.is_arith(p['ty']):
            st['env'][p['did']] = Poly.atom(('S', p['name']))
            names.append(p['name'])
        else:
            st['env'][p['did']] = ('S', p['name'])
    try:
        m.block(c, [c.body], st)
    except Unsupported as e:
        raise AnalysisBroken('ReedsSheppPath constructor outside the fragment: %s' % e)
    tot = m.read(('F', P, 'totalLength_'), st)
    mm = sym.Machine(None, sym.Ctx())
    want = sum((mm.app('fabs', [Poly.atom(('S', nme))]) for nme in names), Poly())
    lens_ok = all(m.read(('I', ('F', P, 'length_'), Poly.const(i).key()), st) == Poly.atom(('S', nme)) for i, nme in enumerate(names))
    ok = tot == want and lens_ok and len(names) == 5
    rep.add('R14f', c.name, 'total-length', ok, c.where(c.nodes[c.body]),
            'totalLength_ = sum |length_[i]|, length_[i] = i-th argument' if ok else 'totalLength_ is %s' % sym.show(tot))
    # distance = rho * length
    for rec, callee in (('ReedsSheppStateSpace', 'reedsShepp'),):
        g = [x for x in F.by_name.get(B + rec + '::distance', []) if x.body][0]
        m = sym.Machine(F, sym.Ctx(inline=None))
        st = {'env': {}, 'heap': [], 'alias': {}, 'this': ('T',), 'facts': []}
        for p, v in zip(g.params, (('S', 'A'), ('S', 'B'))):
            st['env'][p['did']] = v
        r = m.block(g, [g.body], st)
        ok = isinstance(r, Poly) and len(r.t) == 1 and list(r.t.values())[0] == 1 and \
            sorted(a[0] if a[0] != 'call' else a[1].split('::')[-1] for a, e in list(r.t)[0]) == ['length', 'rd']
        rep.add('R14f', g.name, 'rho-times-length', ok, g.where(g.nodes[g.body]),
                'rho_ * reedsShepp(a, b).length()' if ok else 'distance is %s' % sym.show(r))


def r14g(rep, F):
    rep.rule('R14g', 'typestate over the CFG of interpolate(from, to, t, firstTime, path, state) (Dubins, Reeds-Shepp): firstTime is '
                     'cleared only on paths on which path has been assigned (same rule as C07/R07g)')
    from engine import paths
    for rec in ('DubinsStateSpace', 'ReedsSheppStateSpace'):
        f = c07.interp_fn(F, rec, 6)
        flag = [p for p in f.params if p['ty'].replace(' ', '') == 'bool&']
        pth = [p for p in f.params if p['ty'].endswith('Path &') and 'const' not in p['ty']]
        if len(flag) != 1 or len(pth) != 1:
            raise AnalysisBroken('R14g: parameters of %s changed' % f.name)
        cl = c07.CacheClient(f, flag[0]['did'], pth[0]['did'])
        paths.run_function(f, cl, F)
        ok = not cl.bad
        rep.add('R14g', f.name, 'cache-filled-before-flag-cleared', ok, f.where(f.nodes[f.body]),
                'on every path: firstTime cleared => path assigned' if ok else
                'a path clears firstTime and returns without assigning path: the next call integrates an unset path',
                path=cl.bad[0] if cl.bad else None)


def run(rep):
    F = facts.load_units(UNITS)
    rep.units.update(UNITS)
    rep.functions.update(f.key for f in F.functions if f.file.endswith('DubinsStateSpace.cpp') or f.file.endswith('ReedsSheppStateSpace.cpp')
                         or f.file.endswith('DubinsStateSpace.h'))
    r14a(rep, F)
    r14b(rep, F)
    r14c(rep, F)
    r14dk(rep, F)
    r14e(rep, F)
    r14f(rep, F)
    r14g(rep, F)
    r14h(rep, F)
    r14m(rep, F)
    rep.undecided('R14x', '(anon)::dubinsClassification', 'optimality', 'that the classified word is the shortest of the six, that the word '
                  'formulas reach the target pose, and arc length == reported distance are arithmetic over trigonometric identities; '
                  'only the symmetry and agreement clauses above are decided')
    rep.undecided('R14x', '(anon)::reedsShepp', 'optimality', 'the 48-word Reeds-Shepp enumeration is checked for its symmetry structure only')
