"""C17 -- path post-processing preserves endpoints, validity and never worsens cost (structural clauses).

R17a every mutation of a path's state vector in the simplification routines is dominated by a successful motion check
R17b freed range == erased range (linear normal form) wherever states are freed and erased together
R17c cost-aware routines mutate only after their objective comparison; argument roles frozen per routine
R17d simplify() returns valid || path.check(); subdivide / interpolate push every original vertex once, in order
R17f along-path cost folds are contiguous: the partial piece, the vertex loop and the closing piece meet at equal indices
R17g PathGeometric::interpolate(count): the number of states inserted on a segment is bounded by the remaining budget on
     every path into the insertion
R17h a junction state created by interpolation has its own partial segment accounted in the candidate cost
"""
import re
from engine import facts, paths, lin, fd
from engine.facts import AnalysisBroken, src
from engine.shape import key, args, pkey, for_loop
from rules import planners as P
from rules.planners import B, nofp

G = 'ompl::geometric::'
UNITS = [src('geometric', 'src', 'PathSimplifier.cpp'), src('geometric', 'src', 'PathGeometric.cpp'),
         src('geometric', 'src', 'PathHybridization.cpp')]
ROUTINES = ('reduceVertices', 'ropeShortcutPath', 'partialShortcutPath', 'collapseCloseVertices', 'perturbPath', 'findBetterGoal',
            'smoothBSpline')
OO = 'ompl::base::OptimizationObjective::'


def is_states_vec(f, nid):
    fp = nofp(f.fp(nid))
    return fp == 'states' or fp.endswith('getStates(path)') or fp == 'this.states_'


def mutation_sites(f):
    sites = {}
    for n in f.walk():
        c = n.get('callee') or ''
        if c in ('std::vector::erase', 'std::vector::insert', 'std::vector::swap', 'std::vector::push_back', 'std::vector::pop_back') and \
                n['ch'] and is_states_vec(f, n['ch'][0]):
            sites[n['id']] = c.split('::')[-1]
        elif c.endswith('::copyState') and args(f, n):
            d = f.strip(args(f, n)[0])
            if d is not None and d.get('oop') == '[]' and is_states_vec(f, d['ch'][0]):
                sites[n['id']] = 'copyState-into-path'
    return sites


def densification_inserts(f):
    """insert sites whose inserted state was just produced by interpolate(states[a], states[b], ..) between path states"""
    out = set()
    for n in f.walk():
        if n.get('callee') == 'std::vector::insert' and n['ch'] and is_states_vec(f, n['ch'][0]):
            a = args(f, n)
            vk = key(f, a[-1])
            if not vk:
                continue
            blk = [x for x in f.ancestors(n['id']) if x['k'] == 'CompoundStmt']
            if not blk:
                continue
            for c in f.walk(blk[0]['id']):
                if (c.get('callee') or '').endswith('StateSpace::interpolate') and key(f, args(f, c)[3]) == vk and f.line(c) <= f.line(n):
                    e0, e1 = f.strip(args(f, c)[0]), f.strip(args(f, c)[1])
                    if e0 is not None and e1 is not None and e0.get('oop') == '[]' and e1.get('oop') == '[]' and \
                            is_states_vec(f, e0['ch'][0]) and is_states_vec(f, e1['ch'][0]):
                        out.add(n['id'])
    return out


def r17a(rep, F):
    rep.rule('R17a', 'guard dominance over the CFG of each simplification routine: every erase / insert / swap / overwrite of the '
                     'path\'s state vector is reached only on paths on which a motion check succeeded since the candidate loop was '
                     '(re-)entered; densification inserts of states interpolated between two adjacent path states (smoothBSpline\'s '
                     'subdivide, listed) need no new check')
    n = 0
    for r in ROUTINES:
        fs = [f for f in F.by_name.get(G + 'PathSimplifier::' + r, []) if 'PlannerTerminationCondition' in f.sig or r != 'findBetterGoal']
        if not fs:
            raise AnalysisBroken('R17a: PathSimplifier::%s vanished' % r)
        for f in fs:
            sites = mutation_sites(f)
            dens = densification_inserts(f)
            for d in dens:
                rep.undecided('R17a', f.name, 'insert@%d' % f.line(d), 'densification: the inserted state is interpolated between two path states')
            sites = {k: v for k, v in sites.items() if k not in dens}
            if not sites:
                continue
            cl = P.MotionGuard(f, lambda fn, node, sites=sites: node['id'] if node.get('id') in sites else None)
            paths.run_function(f, cl, F)
            k = 0
            for sid, kind in sorted(sites.items()):
                g = cl.at.get(sid)
                if g is None:
                    continue
                k += 1
                n += 1
                rep.add('R17a', f.name, '%s#%d' % (kind, k), bool(g), f.where(sid),
                        'dominated by a successful motion check' if g else
                        'the path is modified (%s) on a path where no motion check succeeded: an unvalidated segment can enter '
                        'the path' % kind, cl.paths_.get(sid))
    rep.require_count('R17a', 'path mutation sites', n, 30)


def r17b(rep, F):
    rep.rule('R17b', 'wherever a loop frees states[j] for j in [a, b) and the same block erases states.begin()+a\' .. '
                     'states.begin()+b\', the two ranges are equal in linear normal form (a state freed but kept, or erased but '
                     'not freed, corrupts the path)')
    n = 0
    for f in F.functions:
        if f.record != G + 'PathSimplifier':
            continue
        for blk in [x for x in f.walk() if x['k'] == 'CompoundStmt']:
            ers = [c for c in blk['ch'] if (f.strip(c) or {}).get('callee') == 'std::vector::erase' and
                   len(args(f, f.strip(c))) == 2 and is_states_vec(f, f.strip(c)['ch'][0])]
            if not ers:
                continue
            for e in ers:
                en = f.strip(e)
                # the nearest preceding sibling that contains a freeing loop
                idx = blk['ch'].index(e)
                loops = []
                for s in blk['ch'][:idx]:
                    for x in f.walk(s):
                        if x['k'] == 'ForStmt' and any((c.get('callee') or '').endswith('::freeState') for c in f.walk(x['body'])):
                            loops.append(x)
                if not loops:
                    continue
                lp = loops[-1]
                li, start, cond, stride = for_loop(f, lp)
                fr = [c for c in f.walk(lp['body']) if (c.get('callee') or '').endswith('::freeState')][0]
                fa = f.strip(args(f, fr)[0])
                if fa is None or fa.get('oop') != '[]' or lin.lin(f, fa['ch'][1]) != {li: 1}:
                    continue
                a, b = args(f, en)

                def off(nid):
                    """begin() + X  -> lin(X)"""
                    x = f.strip(nid)
                    while x is not None and x['k'] == 'CXXConstructExpr' and len(x['ch']) == 1 and \
                            (x.get('callee') or '').startswith('__gnu_cxx::__normal_iterator::'):
                        x = f.strip(x['ch'][0])         # iterator -> const_iterator conversion
                    d = lin.lin(f, x['id']) if x is not None else None
                    if d is None:
                        return None
                    out = {}
                    for k, v in d.items():
                        if isinstance(k, str) and '::begin(' in k:
                            continue
                        if isinstance(k, str) and '::end(' in k:
                            k = k.replace('::end(', '::size(')      # end() - begin() == size()
                        out[k] = out.get(k, 0) + v
                    return out
                ea, eb = off(a), off(b)
                n += 1
                lo_ok = lin.canon(start) == lin.canon(ea)
                # j < B  <=> j - B + 1 <= 0
                hi = None
                if cond and cond[0] == 'le0' and dict(cond[1]).get(li) == 1:
                    hi = {(1 if k == '1' else k): -v for k, v in cond[1] if k != li}
                    hi[1] = hi.get(1, 0) + 1
                hi_ok = hi is not None and lin.canon(hi) == lin.canon(eb)
                rep.add('R17b', f.name, 'free-erase#%d' % f.line(en), lo_ok and hi_ok, f.where(en),
                        'freed [%s, %s) == erased range' % (lin.show(start), lin.show(hi)) if lo_ok and hi_ok else
                        'states [%s, %s) are freed but [%s, %s) are erased' % (lin.show(start), lin.show(hi), lin.show(ea), lin.show(eb)))
    rep.require_count('R17b', 'free/erase pairs', n, 10)


# per routine: how the objective comparison guards the mutation  (old-cost expression pattern, new-cost pattern)
COST_ROLES = {
    'partialShortcutPath': ('alongPath', r'motionCost\(this\.obj_[^,]*,s0,s1\)|motionCost\(.*s0,s1\)'),
    'perturbPath': ('alongPath', 'newCost'),
    'findBetterGoal': (r'back\(costs\)', 'candidateCost'),
    'ropeShortcutPath': (r'^alongPath$', r'^shortcutCost$'),
}


class CostGuard(paths.Client):
    """fact: on this path the objective comparison came out in favour of the new segment"""
    track = 'vars'

    def __init__(self, fn, sites, old, new):
        self.sites, self.old, self.new = sites, old, new
        self.at = {}
        self.paths_ = {}
        self.relevant, self.relevant_preds = P.verdict_relevance(fn, lambda n: n.get('callee') in (OO + 'isCostBetterThan', OO + 'isCostEquivalentTo'))
        self.kill = set()
        for n in fn.walk():
            if n['k'] in ('WhileStmt', 'ForStmt', 'DoStmt') and n.get('cond') and \
                    any(c.get('callee') == OO + 'isCostBetterThan' for c in fn.walk(n['id'])):
                self.kill.update(x['id'] for x in fn.walk(n['cond']))

    def init(self, fn):
        return False

    def on_node(self, fn, node, auto, ctx):
        if node.get('id') in self.kill:
            auto = False
        if node.get('id') in self.sites:
            k = node['id']
            self.at[k] = self.at.get(k, True) and bool(auto)
            if not auto and k not in self.paths_:
                self.paths_[k] = ctx.path()
        return auto

    def learn(self, fn, node, value, auto, ctx):
        if node.get('callee') == OO + 'isCostBetterThan':
            a = [nofp(fn.fp(x)) for x in args(fn, node)]
            if re.search(self.new, a[0]) and re.search(self.old, a[1]) and value is True:
                return True       # new strictly better than old
            if re.search(self.old, a[0]) and re.search(self.new, a[1]) and value is False:
                return True       # old not better than new (paired with the equivalence test)
        return auto


def r17c(rep, F):
    rep.rule('R17c', 'cost-aware routines (partialShortcutPath, perturbPath, findBetterGoal): every mutation of the path is reached '
                     'only on paths where the objective comparison favoured the new segment -- isCostBetterThan(new, old) true, or '
                     'isCostBetterThan(old, new) false -- with old = the along-path cost and new = the candidate (roles frozen per '
                     'routine)')
    n = 0
    for r, (old, new) in COST_ROLES.items():
        if old is None:
            continue
        exempt_fn = densification_inserts
        for f in [x for x in F.by_name.get(G + 'PathSimplifier::' + r, []) if 'PlannerTerminationCondition' in x.sig or r != 'findBetterGoal']:
            sites = {k: v for k, v in mutation_sites(f).items() if k not in densification_inserts(f)}
            cl = CostGuard(f, set(sites), old, new)
            paths.run_function(f, cl, F)
            k = 0
            for sid, kind in sorted(sites.items()):
                if sid not in cl.at:
                    continue
                k += 1
                n += 1
                g = cl.at[sid]
                rep.add('R17c', f.name, '%s#%d' % (kind, k), bool(g), f.where(sid),
                        'reached only after the comparison favoured the new segment' if g else
                        'the path is modified on a path where the objective comparison did not favour the new segment (or compared '
                        'the wrong way round): the routine can return a worse path', cl.paths_.get(sid))
    rep.require_count('R17c', 'cost-guarded mutation sites', n, 15)


def r17d(rep, F):
    rep.rule('R17d', 'simplify(path, ptc): returns valid || path.check() with valid the verdict of checkAndRepair; subdivide() and '
                     'interpolate() push every original vertex once, in order (loop i = 0 .. n-2 pushing states_[i], then the last)')
    f = F.one(G + 'PathSimplifier::simplify', sig_contains='PlannerTerminationCondition')
    rets = [r for r in f.walk() if r['k'] == 'ReturnStmt' and r['ch']]
    ok = False
    why = 'final verdict not recognised'
    last = rets[-1] if rets else None
    if last is not None:
        e = f.strip(last['ch'][0])
        if e is not None and e['k'] == 'BinaryOperator' and e.get('op') == '||':
            l, r = f.strip(e['ch'][0]), f.strip(e['ch'][1])
            vk = key(f, e['ch'][0])
            chk = r is not None and (r.get('callee') or '').endswith('PathGeometric::check')
            vdef = [d for ds in f.walk() if ds['k'] == 'DeclStmt' for d in ds['decls'] if '%s#%d' % (d['name'], d['did']) == vk]
            vsrc = [x for x in f.walk() if x['k'] == 'BinaryOperator' and x.get('op') == '=' and key(f, x['ch'][0]) == vk]
            from_repair = any('checkAndRepair' in nofp(f.fp(x['ch'][1])) for x in vsrc) or \
                any(d.get('init') and 'checkAndRepair' in nofp(f.fp(d['init'])) for d in vdef)
            if not from_repair:
                # valid starts true and is only ever set false, under the verdict of checkAndRepair
                rvars = {'%s#%d' % (d['name'], d['did']) for ds in f.walk() if ds['k'] == 'DeclStmt' for d in ds['decls']
                         if d.get('init') and 'checkAndRepair' in nofp(f.fp(d['init']))}
                inits_true = any(d.get('init') and (f.strip(d['init']) or {}).get('v') is True for d in vdef)
                sets = [(x, (f.strip(x['ch'][1]) or {}).get('v')) for x in vsrc]
                guarded = all(v is False and any(a['k'] == 'IfStmt' and any(z['k'] == 'DeclRefExpr' and '%s#%d' % (z.get('name'), z.get('did')) in rvars
                                                                            for z in f.walk(a['cond'])) for a in f.ancestors(x['id'])) for x, v in sets)
                from_repair = inits_true and bool(sets) and guarded
            if not chk:
                why = 'the result is not or-ed with path.check()'
            elif not from_repair:
                why = 'the first operand is not the verdict of checkAndRepair'
            else:
                ok = True
        elif e is not None and e.get('v') is True:
            why = 'simplify() returns true unconditionally'
    rep.add('R17d', f.name, 'verdict', ok, f.where(last) if last else f.loc, 'returns valid || path.check()' if ok else why)
    for nm in ('subdivide',):
        g = F.one(G + 'PathGeometric::' + nm)
        fors = [x for x in g.walk() if x['k'] == 'ForStmt']
        why = None
        if len(fors) != 1:
            raise AnalysisBroken('R17d: loop of %s not found' % nm)
        idx, start, cond, stride = for_loop(g, fors[0])
        cond = lin.cmp_le0(g, fors[0]['cond'], lin.local_env(g))
        pushes = [c for c in g.walk(fors[0]['body']) if c.get('callee') == 'std::vector::push_back']
        orig = [c for c in pushes if re.search(r'operator\[\]\(this\.states_,%s\)' % re.escape(nofp(idx)), nofp(g.fp(args(g, c)[0])))]
        tail = [c for c in g.walk() if c.get('callee') == 'std::vector::push_back' and g.line(c) > g.line(fors[0]) and
                ('back(this.states_)' in nofp(g.fp(args(g, c)[0])) or 'this.states_' in nofp(g.fp(args(g, c)[0])))]
        S = 'std::vector::size(this.states_)'
        cd = {nofp(k): v for k, v in cond[1]} if cond else {}
        first_in_init = any(d.get('init') and 'operator[](this.states_,0)' in nofp(g.fp(d['init'])).replace("'", '') for ds in g.walk()
                            if ds['k'] == 'DeclStmt' for d in ds['decls'])
        schema_b = start == {1: 1} and stride == 1 and cd == {nofp(idx): 1, S: -1, '1': 1} and first_in_init
        if schema_b:
            # first vertex seeds the new vector; each iteration pushes a midpoint and states_[i]
            if len(orig) != 1 or len(pushes) != 2:
                why = 'each iteration does not push one midpoint and the original vertex'
            elif g.line(orig[0]) < max(g.line(c) for c in pushes):
                why = 'the original vertex is pushed before the midpoint of its segment'
        elif start != {1: 0} or stride != 1 or cd != {nofp(idx): 1, S: -1, '1': 2}:
            why = 'the loop does not run over every segment'
        elif len(orig) != 1 or len(pushes) != 2:
            why = 'each iteration does not push the original vertex and one midpoint'
        elif not tail and not schema_b:
            why = 'the last vertex is not pushed'
        rep.add('R17d', g.name, 'keeps-vertices', why is None, g.loc, why or 'pushes states_[i] and one midpoint per segment, then the last vertex (2n-1 states)')


def r17f(rep, F):
    rep.rule('R17f', 'along-path cost folds (perturbPath): the partial piece motionCost(before, states[E1]), the vertex loop '
                     'motionCost(states[v], states[v+1]) starting at E2 and running while v < E3, and the closing piece '
                     'motionCost(states[E4], after) meet: E1 == E2 and E3 == E4 under the same selector (linear normal form); a gap '
                     'or overlap mis-states the old cost and lets a worse path be accepted')
    _fold(rep, F.one(G + 'PathSimplifier::perturbPath'))
    _fold(rep, F.one(G + 'PathSimplifier::partialShortcutPath'))


def _fold(rep, f):
    short = f.name.split('::')[-1]
    wl = [x for x in f.walk() if x['k'] == 'WhileStmt' and any(c.get('callee') == OO + 'motionCost' for c in f.walk(x['body']))]
    wl = [w for w in wl if lin.cmp_le0(f, w['cond']) is not None]
    if len(wl) != 1:
        raise AnalysisBroken('R17f: vertex loop of %s\'s cost fold not found' % short)
    w = wl[0]
    c = lin.cmp_le0(f, w['cond'])
    d = dict(c[1])
    mc = [x for x in f.walk(w['body']) if x.get('callee') == OO + 'motionCost'][0]
    a0, a1 = [f.strip(x) for x in args(f, mc)]
    v = None
    if a0.get('oop') == '[]' and a1.get('oop') == '[]':
        l0, l1 = lin.lin(f, a0['ch'][1]), lin.lin(f, a1['ch'][1])
        if len(l0) == 1 and lin._add(l1, l0, -1) == {1: 1}:
            v = list(l0.keys())[0]
    if v is None:
        raise AnalysisBroken('R17f: loop body is not motionCost(states[v], states[v+1])')
    # bound E3: v < E3  <=> v - E3 + 1 <= 0
    E3 = {(1 if k == '1' else k): -val for k, val in c[1] if k != v}
    E3[1] = E3.get(1, 0) + 1
    # start E2 (else-branch of the selector) and E1
    vinit = None
    for ds in [x for x in f.walk() if x['k'] == 'DeclStmt']:
        for dd in ds['decls']:
            if '%s#%d' % (dd['name'], dd['did']) == v:
                vinit = dd.get('init')
    sel = f.strip(vinit) if vinit else None
    if sel is None:
        raise AnalysisBroken('R17f: start of the vertex loop has no initialiser')
    if sel['k'] == 'ConditionalOperator':
        E2 = lin.lin(f, sel['else'])
        selfp = nofp(f.fp(sel['cond']))
    else:
        # the start is not selected by the snapped/unsnapped test: it must then equal the end of the partial piece of the
        # unsnapped case as it stands
        E2 = lin.lin(f, sel['id'])
        selfp = None
    # the partial pieces: ConditionalOperators whose else-branch is motionCost(x, y).  The opening piece runs from the sampled point to
    # a path vertex, motionCost(point, states[E1]); the closing piece from a path vertex to the sampled point, motionCost(states[E4], point)
    E1 = None
    E4 = None
    odd = None
    for x in f.walk():
        if x['k'] == 'ConditionalOperator':
            e = f.strip(x['else'])
            if e is not None and e.get('callee') == OO + 'motionCost':
                b0, b1 = [f.strip(y) for y in args(f, e)]
                sub0, sub1 = b0.get('oop') == '[]', b1.get('oop') == '[]'
                if sub1 and not sub0:
                    if (selfp is None or nofp(f.fp(x['cond'])) == selfp or short != 'perturbPath') and E1 is None:
                        E1 = lin.lin(f, b1['ch'][1])
                    elif E1 is not None:
                        odd = x
                elif sub0 and not sub1:
                    if E4 is None:
                        E4 = lin.lin(f, b0['ch'][1])
                    else:
                        odd = x
                else:
                    odd = x
    if odd is not None or E1 is None or E4 is None:
        where = odd if odd is not None else w
        rep.add('R17f', f.name, 'fold-pieces-oriented', False, f.where(where),
                'the cost of the old route needs one opening piece motionCost(sampled point, states[.]) and one closing piece '
                'motionCost(states[.], sampled point); found %s' % ('a piece that is neither, or a second piece of the same kind' if odd is not None
                                                                    else 'no opening piece' if E1 is None else 'no closing piece'))
        return
    rep.add('R17f', f.name, 'fold-pieces-oriented', True, f.where(w), 'one opening and one closing piece, both in path order')
    ok1 = lin.canon(E1) == lin.canon(E2)
    ok2 = lin.canon(E3) == lin.canon(E4)
    rep.add('R17f', f.name, 'fold-start-contiguous', ok1, f.where(w),
            'partial piece ends at states[%s] and the vertex loop starts there' % lin.show(E1) if ok1 else
            'the partial piece ends at states[%s] but the vertex loop starts at %s: a segment of the old path is counted twice or '
            'skipped' % (lin.show(E1), lin.show(E2)))
    rep.add('R17f', f.name, 'fold-end-contiguous', ok2, f.where(w),
            'the vertex loop stops at %s where the closing piece starts' % lin.show(E3) if ok2 else
            'the vertex loop stops at %s but the closing piece starts at states[%s]' % (lin.show(E3), lin.show(E4)))


class BudgetGuard(paths.Client):
    """fact: ns <= budget on this path (learned from the clamp test or its assignment)"""
    track = 'none'

    def __init__(self, fn, site, ns, budget):
        self.site, self.ns, self.budget = site, ns, budget
        self.res = None
        self.path = None

    track = 'vars'
    relevant = set()
    relevant_preds = set()

    def init(self, fn):
        return False

    def learn(self, fn, node, value, auto, ctx):
        if node.get('k') == 'BinaryOperator':
            c = lin.cmp_le0(fn, node['id'])
            want = ('le0', lin.canon({self.ns: 1, self.budget: -1}))        # ns - budget <= 0
            neg = ('le0', lin.canon({self.budget: 1, self.ns: -1, 1: 1}))   # ns > budget
            if c == want and value:
                return True
            if c == neg and value is False:
                return True
        return auto

    def on_node(self, fn, node, auto, ctx):
        if node.get('id') == self.site:
            self.res = auto if self.res is None else (self.res and auto)
            if not auto and self.path is None:
                self.path = ctx.path()
        if node['k'] == 'BinaryOperator' and node.get('op') == '=' and key(fn, node['ch'][0]) == self.ns:
            return lin.lin(fn, node['ch'][1]) == {self.budget: 1}
        if node['k'] == 'CompoundAssignOperator' and key(fn, node['ch'][0]) == self.ns:
            r = lin.lin(fn, node['ch'][1])
            if node.get('op') == '-=' and r is not None and set(r) <= {1} and r.get(1, 0) >= 0:
                return auto      # decreasing keeps ns <= budget
            return False
        if node['k'] == 'DeclStmt':
            for d in node.get('decls', []):
                if '%s#%d' % (d['name'], d['did']) in (self.ns, self.budget):
                    return False
        return auto


def r17g(rep, F):
    rep.rule('R17g', 'PathGeometric::interpolate(count): at the call that inserts ns interior states on a segment, ns <= the '
                     'remaining budget (maxNStates) holds on every path (established by the clamp test / assignment, preserved by '
                     'decrements) -- a necessary condition for "yields exactly the requested number of states"')
    f = F.one(G + 'PathGeometric::interpolate', sig_contains='(unsigned int)')
    calls = [c for c in f.walk() if (c.get('callee') or '').endswith('::getMotionStates')]
    if len(calls) != 1:
        raise AnalysisBroken('R17g: insertion call not found')
    nsk = key(f, args(f, calls[0])[3])
    bud = None
    for ds in [x for x in f.walk() if x['k'] == 'DeclStmt']:
        for d in ds['decls']:
            if d.get('init') and 'count' in nofp(f.fp(d['init'])) and 'size(this.states_)' in nofp(f.fp(d['init'])):
                bud = '%s#%d' % (d['name'], d['did'])
    if not nsk or not bud:
        raise AnalysisBroken('R17g: ns / budget variables not recognised')
    cl = BudgetGuard(f, calls[0]['id'], nsk, bud)
    paths.run_function(f, cl, F)
    if cl.res is None:
        raise AnalysisBroken('R17g: insertion call not reached')
    rep.add('R17g', f.name + '(count)', 'insertion-within-budget', bool(cl.res), f.where(calls[0]),
            '%s <= %s on every path into getMotionStates' % (nofp(nsk), nofp(bud)) if cl.res else
            'a path reaches getMotionStates with %s not bounded by the remaining budget %s: more states than requested are produced'
            % (nofp(nsk), nofp(bud)), cl.path)


def r17h(rep, F):
    rep.rule('R17h', 'findBetterGoal: when the junction is an interpolated state (not snapped to a vertex) the cost to come includes '
                     'motionCost(states[startIndex], junction), and the candidate is combineCosts(costToCome, motionCost(junction, '
                     'newGoal)); the junction checked by checkMotion is the one whose costs were used')
    f = F.one(G + 'PathSimplifier::findBetterGoal', sig_contains='PlannerTerminationCondition')
    itp = [c for c in f.walk() if (c.get('callee') or '').endswith('StateSpace::interpolate')]
    if len(itp) != 1:
        raise AnalysisBroken('R17h: junction interpolation not found')
    blk = [a for a in f.ancestors(itp[0]['id']) if a['k'] == 'CompoundStmt'][0]
    out = key(f, args(f, itp[0])[3])
    # junction variable: assigned from the interpolation output in the same block
    junc = None
    for x in f.walk(blk['id']):
        if x['k'] == 'BinaryOperator' and x.get('op') == '=' and key(f, x['ch'][1]) == out:
            junc = key(f, x['ch'][0])
    names = {out, junc} - {None}
    mc_to = [c for c in f.walk(blk['id']) if c.get('callee') == OO + 'motionCost' and key(f, args(f, c)[1]) in names]
    ok = False
    why = 'the partial segment states[startIndex] -> junction is not added to the cost to come'
    if mc_to:
        st = [x for x in f.walk(blk['id']) if (x.get('oop') == '=' or (x['k'] == 'BinaryOperator' and x.get('op') == '=')) and
              any(z['id'] == mc_to[0]['id'] for z in f.walk(x['ch'][1]))]
        if st and 'combineCosts' in nofp(f.fp(st[0]['ch'][1])) and nofp(f.fp(st[0]['ch'][0])) in nofp(f.fp(st[0]['ch'][1])):
            a0 = f.strip(args(f, mc_to[0])[0])
            s_from = f.strip(args(f, itp[0])[0])
            if a0 is not None and s_from is not None and nofp(f.fp(a0['id'])) == nofp(f.fp(s_from['id'])):
                ok = True
            else:
                why = 'the partial segment is not measured from the vertex the junction was interpolated from'
        else:
            why = 'the partial segment cost is not combined into the cost to come'
    rep.add('R17h', f.name, 'junction-segment-accounted', ok, f.where(itp[0]),
            'costToCome += motionCost(states[startIndex], junction) for an interpolated junction' if ok else why)
    chk = [c for c in f.walk() if P.is_motion_check(c) and f.line(c) > f.line(itp[0])]
    go = [c for c in f.walk() if c.get('callee') == OO + 'motionCost' and f.line(c) > f.line(itp[0]) and key(f, args(f, c)[0]) == junc]
    ok = bool(chk) and bool(go) and key(f, args(f, chk[0])[0]) == junc and nofp(f.fp(args(f, chk[0])[1])) == nofp(f.fp(args(f, go[0])[1]))
    rep.add('R17h', f.name, 'checked-segment-is-costed-segment', ok, f.where(chk[0]) if chk else f.loc,
            'the validated segment (junction -> new goal) is the one whose cost was compared' if ok else
            'the validated segment and the costed segment differ')


class _CondInterp(fd.Interp):
    """evaluates a condition of checkAndRepair over concrete loop indices and an oracle for the motion checks (keyed by their arguments)"""

    def __init__(self, fn, oracle):
        super().__init__(fn)
        self.oracle = oracle
        self.asked = set()

    def load(self, n, env):
        raise AnalysisBroken('R17i: condition reads %s' % self.fn.fp(n['id']))

    def call(self, n, env):
        c = n.get('callee') or ''
        if c.endswith('::checkMotion'):
            a = args(self.fn, n)
            idx = []
            for x in a[:2]:
                e = self.fn.strip(x)
                if e is None or e.get('oop') != '[]':
                    raise AnalysisBroken('R17i: motion check on something that is not a path state')
                idx.append(self.ev(e['ch'][1], env))
            self.asked.add(tuple(idx))
            return self.oracle[tuple(idx)]
        if c.endswith('operator->') or c.endswith('::get'):
            return ('si',)
        raise AnalysisBroken('R17i: condition calls ' + c)


def r17i(rep, F):
    rep.rule('R17i', 'checkAndRepair: a re-sampled vertex i is accepted exactly when the test that declared it broken no longer fires -- the '
                     'acceptance condition is the negation of the detection condition, as boolean functions of the two motion checks '
                     '(i-1, i) and (i, i+1) and of the position of i, evaluated for every i and path length up to 5 and every outcome of '
                     'the checks.  (The outgoing motion of the penultimate vertex is never looked at again by the outer loop.)')
    f = F.one(G + 'PathGeometric::checkAndRepair')
    loops = [x for x in f.walk() if x['k'] == 'ForStmt' and x.get('body') and (f.strip(x['body']) or {}).get('k') == 'IfStmt'
             and any((c.get('callee') or '').endswith('::checkMotion') for c in f.walk(f.strip(x['body'])['cond']))]
    if len(loops) != 1:
        raise AnalysisBroken('R17i: the repair loop of checkAndRepair was not recognised')
    fl = loops[0]
    det = f.strip(fl['body'])
    acc = [x for x in f.walk(det['then']) if x['k'] == 'IfStmt' and any((c.get('callee') or '').endswith('::checkMotion') for c in f.walk(x['cond']))]
    if len(acc) != 1:
        raise AnalysisBroken('R17i: the acceptance test of checkAndRepair was not recognised')
    acc = acc[0]
    init = f.nodes.get(fl.get('init'))
    ikey = '%s#%d' % (init['decls'][0]['name'], init['decls'][0]['did']) if init and init['k'] == 'DeclStmt' else None
    nkeys = {'%s#%d' % (z['name'], z['did']) for z in f.walk(fl['cond']) if z['k'] == 'DeclRefExpr' and z.get('dk') == 'Local'} - {ikey}
    if ikey is None or len(nkeys) != 1:
        raise AnalysisBroken('R17i: loop variable / bound of the repair loop not recognised')
    nkey = list(nkeys)[0]
    bad = None
    runs = 0
    for n1 in (2, 3, 4):
        for i in range(1, n1):
            for c1 in (False, True):
                for c2 in (False, True):
                    oracle = {(i - 1, i): c1, (i, i + 1): c2}
                    env = {ikey: i, nkey: n1}
                    try:
                        d = _CondInterp(f, oracle).truth(_CondInterp(f, oracle).ev(det['cond'], dict(env)))
                        a = _CondInterp(f, oracle).truth(_CondInterp(f, oracle).ev(acc['cond'], dict(env)))
                    except KeyError as e:
                        raise AnalysisBroken('R17i: a motion check on the pair %s, which is not adjacent to the repaired vertex' % (e,))
                    runs += 1
                    if a == d and bad is None:
                        bad = 'vertex i = %d of a path with last index %d, check(i-1,i) = %s, check(i,i+1) = %s: detection says %s and the ' \
                              'acceptance test says %s' % (i, n1, c1, c2, 'broken' if d else 'fine', 'accept' if a else 'reject')
    rep.add('R17i', f.name, 'accept-iff-not-broken', bad is None, f.where(acc), bad or 'acceptance = not detection on %d abstract points' % runs)


def r17e(rep, F):
    rep.rule('R17e', 'hybridization (re-instated on the interpretive engine): PathHybridization::recordPath is interpreted on abstract '
                     'paths of 1..4 states (boost::add_vertex / add_edge recorded, motionCost(a, b) an abstract symbol, combineCosts a '
                     'formal sum): the graph gains root -> v0 with the identity cost, v(j-1) -> v(j) with motionCost(state j-1, state j) for '
                     'every j, v(last) -> goal with the identity cost, every vertex carries its own path state, and the cost stored with '
                     'the path is the fold of those weights -- so every recorded path is a root-to-goal route of exactly its cost and the '
                     'shortest route cannot be worse than the best recorded path; attemptNewEdge adds a cross edge only under a successful '
                     'motion check of the two states whose vertices it joins, weighted by their motion cost; computeHybridPath runs the '
                     'shortest-path search from root_ with the objective\'s compare / combine / infinite / identity and walks prev[] from '
                     'prev[goal_] until the root')
    from engine import obj
    HP = G + 'PathHybridization::'
    rp = [g for g in F.by_name.get(HP + 'recordPath', []) if g.body]
    if not rp:
        raise AnalysisBroken('R17e: PathHybridization::recordPath vanished')
    rp = rp[0]
    bad = None
    runs = 0
    for nst in (1, 2, 3, 4):
        states = [('s', j) for j in range(nst)]
        graph = {'v': 2, 'edges': []}
        sprop = {}

        def call(it, n, env, graph=graph, sprop=sprop, states=states):
            c = n.get('callee') or ''
            short = c.split('::')[-1]
            a = args(it.fn, n) if n['k'] == 'CXXMemberCallExpr' else n['ch']
            if c == 'boost::add_vertex':
                graph['v'] += 1
                return ('v', graph['v'])
            if c == 'boost::add_edge':
                graph['edges'].append((it.ev(a[0], env), it.ev(a[1], env), it.ev(a[2], env)))
                return ('edge',)
            if short == 'getSpaceInformation':
                return it.this['si_']
            if short == 'getStateCount':
                return len(states)
            if short == 'getStates':
                return states
            if short == 'identityCost':
                return ()
            if short == 'motionCost' and len(a) == 2:
                return (('mc', it.ev(a[0], env), it.ev(a[1], env)),)
            if short == 'combineCosts' and len(a) == 2:
                return tuple(it.ev(a[0], env)) + tuple(it.ev(a[1], env))
            if c.startswith('std::set::'):
                if short == 'find':
                    return ('end',)
                if short == 'end':
                    return ('end',)
                if short == 'insert':
                    it.this['paths_'].append(it.ev(a[0], env))
                    return None
            if n['k'] == 'CXXOperatorCallExpr' and n.get('oop') == '[]' and 'stateProperty_' in it.fn.fp(n['ch'][0]):
                return sprop.get(it.ev(n['ch'][1], env))
            if n['k'] == 'CXXOperatorCallExpr' and n.get('oop') in ('!=', '==') and len(n['ch']) == 2:
                x, y = it.ev(n['ch'][0], env), it.ev(n['ch'][1], env)
                return (x != y) if n['oop'] == '!=' else (x == y)
            return NotImplemented

        def construct(it, n, av):
            ty = n.get('ty') or ''
            if 'edge_property' in ty or 'property<' in ty:
                return av[0] if av else ()
            if 'Cost' in ty:
                return av[0] if av else ()
            return NotImplemented

        class HI(obj.ObjInterp):
            def store(self, lhs, v, env):
                if lhs is not None and lhs['k'] == 'CXXOperatorCallExpr' and lhs.get('oop') == '[]' and 'stateProperty_' in self.fn.fp(lhs['ch'][0]):
                    sprop[self.ev(lhs['ch'][1], env)] = v
                    return
                return super().store(lhs, v, env)
        si = obj.Ref(name='si')
        this = obj.Ref(si_=si, obj_=obj.Ref(name='obj'), g_=('graph',), root_=('v', 1), goal_=('v', 2), paths_=[], stateProperty_=('sprop',), hpath_=None)
        it = HI(F, rp, this=this, hooks={'call': call, 'construct': construct, 'default': lambda ty: [] if 'vector' in str(ty) or str(ty) == 'vertices_' else None})
        names = ['%s#%d' % (p_['name'], p_['did']) for p_ in rp.params]
        it.run(dict(zip(names, [obj.Ref(name='path'), False])))
        runs += 1
        vs = [('v', 3 + j) for j in range(nst)]
        want = [(('v', 1), vs[0], ())] + [(vs[j - 1], vs[j], (('mc', states[j - 1], states[j]),)) for j in range(1, nst)] + [(vs[-1], ('v', 2), ())]
        msg = None
        if sorted(map(repr, graph['edges'])) != sorted(map(repr, want)):
            msg = 'the edges added are %s; a root-to-goal route through the path needs %s' % (graph['edges'], want)
        elif any(sprop.get(vs[j]) != states[j] for j in range(nst)):
            msg = 'vertex %d of the path does not carry path state %d' % (next(j for j in range(nst) if sprop.get(vs[j]) != states[j]),) * 1
        else:
            pi = this['paths_'][0] if this['paths_'] else None
            fold = tuple(('mc', states[j - 1], states[j]) for j in range(1, nst))
            if pi is None:
                msg = 'the path is not remembered'
            elif tuple(pi.get('cost_') or ()) != fold:
                msg = 'the cost stored with the path is %s, the fold of its motion costs is %s' % (pi.get('cost_'), fold)
            elif list(pi.get('vertices_') or []) != vs:
                msg = 'the vertex list stored with the path is %s, not %s' % (pi.get('vertices_'), vs)
        if msg and bad is None:
            bad = 'for a path of %d state(s): %s' % (nst, msg)
    rep.add('R17e', rp.name, 'recorded-path-is-a-route-of-its-cost', bad is None, rp.loc, bad or 'chain, weights, states and stored cost on %d abstract paths' % runs)
    # cross edges
    ae = [g for g in F.by_name.get(HP + 'attemptNewEdge', []) if g.body][0]
    adds = {c['id']: c for c in ae.walk() if c.get('callee') == 'boost::add_edge'}
    if len(adds) != 1:
        raise AnalysisBroken('R17e: attemptNewEdge no longer adds exactly one edge')
    cl = P.MotionGuard(ae, lambda fn, node: node['id'] if node.get('id') in adds else None)
    paths.run_function(ae, cl, F)
    c = list(adds.values())[0]
    chk = [x for x in ae.walk() if x.get('callee') in P.CHECK_CALLEES]
    mc = [x for x in ae.walk() if (x.get('callee') or '').endswith('::motionCost')]
    a = args(ae, c)
    pair = [nofp(ae.fp(x)) for x in a[:2]]
    st_pair = [p_.replace('.vertices_', '.states_') for p_ in pair]
    ok = bool(cl.at.get(c['id'])) and len(chk) == 1 and [nofp(ae.fp(x)) for x in args(ae, chk[0])[:2]] == st_pair and \
        len(mc) == 1 and [nofp(ae.fp(x)) for x in args(ae, mc[0])[:2]] == st_pair
    rep.add('R17e', ae.name, 'cross-edge-validated-and-weighted', ok, ae.where(c),
            'added under checkMotion of the two joined states, weighted by their motion cost' if ok else
            'the cross edge joins %s but the motion check / weight is about %s / %s, or the edge is added without a successful check'
            % (pair, [nofp(ae.fp(x)) for x in args(ae, chk[0])[:2]] if chk else None, [nofp(ae.fp(x)) for x in args(ae, mc[0])[:2]] if mc else None))
    ch = [g for g in F.by_name.get(HP + 'computeHybridPath', []) if g.body][0]
    dj = [x for x in ch.walk() if x.get('callee') == 'boost::dijkstra_shortest_paths']
    fp = ch.fp(dj[0]['id']) if dj else ''
    lam = [l for l in F.lambdas_of.get(ch.name, [])]
    lam_fp = ' '.join(l.fp(l.body) for l in lam)
    ok = bool(dj) and 'this.root_' in ch.fp(args(ch, dj[0])[1]) and 'isCostBetterThan' in lam_fp and 'combineCosts' in lam_fp and \
        'infiniteCost' in fp and 'identityCost' in fp
    walk = [x for x in ch.walk() if x['k'] == 'ForStmt']
    ok2 = len(walk) == 1 and 'this.goal_' in ch.fp(walk[0]['init']) and 'prev' in ch.fp(walk[0]['cond']) and '!=' in ch.fp(walk[0]['cond'])
    rep.add('R17e', ch.name, 'shortest-route-under-the-objective', ok and ok2, ch.loc,
            'dijkstra from root_ with the objective\'s compare / combine / inf / zero; extraction walks prev[] from prev[goal_] to the root' if ok and ok2 else
            'the search is not the shortest-path search from root_ under the objective, or the extraction does not walk prev[] from the goal')
    rep.require_count('R17e', 'abstract recordPath runs', runs, 4)


def r17j(rep, F):
    rep.rule('R17j', 'findBetterGoal snaps its sample point consistently: the statements that compute (startIndex, endIndex) from the bracketing '
                     'vertices (start, end) and the two snap tests are interpreted for all four outcomes of the tests; obligation: no snap -> '
                     '(start, end); snap to the start only -> (start, start); to the end only -> (end, end); both (a segment shorter than two '
                     'thresholds) -> startIndex == endIndex.  In every case startIndex <= endIndex: a swapped pair overwrites the vertex at the '
                     'start of the segment with an interior point and truncates the path behind it -- a motion nobody validated')
    fs = [f for f in F.by_name.get(G + 'PathSimplifier::findBetterGoal', []) if 'PlannerTerminationCondition' in f.sig and f.body]
    if not fs:
        raise AnalysisBroken('R17j: findBetterGoal vanished')
    f = fs[0]
    decl = {}
    for ds in [x for x in f.walk() if x['k'] == 'DeclStmt']:
        for d in ds.get('decls', []):
            if d['name'] in ('startIndex', 'endIndex'):
                decl[d['name']] = (ds, d)
    if len(decl) != 2:
        raise AnalysisBroken('R17j: startIndex / endIndex not found')
    blk = next((a for a in f.ancestors(decl['startIndex'][0]['id']) if a['k'] == 'CompoundStmt'), None)
    first_use = min(f.line(x) for x in f.walk() if x['k'] in ('ArraySubscriptExpr', 'CXXOperatorCallExpr') and
                    any(y['k'] == 'DeclRefExpr' and y.get('name') in ('startIndex', 'endIndex') for y in f.walk(x['ch'][-1])) and
                    f.line(x) > max(f.line(decl['startIndex'][0]), f.line(decl['endIndex'][0])))
    S, E = 3, 4

    def ev(nid, env):
        n = f.strip(nid)
        if n is None:
            raise AnalysisBroken('R17j: empty expression')
        k = n['k']
        fp = re.sub(r'#\d+', '', f.fp(n['id']))
        if k == 'BinaryOperator' and n.get('op') in ('<', '<=', '>', '>=') and 'threshold' in fp:
            if 'operator*(start)' in fp:
                return env['c1']
            if 'operator*(end)' in fp:
                return env['c2']
        if k == 'DeclRefExpr':
            nm = n.get('name')
            if nm in env:
                return env[nm]
            if nm == 'start':
                return ('it', S)
            if nm == 'end':
                return ('it', E)
            raise AnalysisBroken('R17j: unknown variable %s in the snap block' % nm)
        if k == 'IntegerLiteral':
            return int(n.get('v'))
        if k == 'CXXBoolLiteralExpr':
            return n.get('v') in (True, 'true', 1)
        if k == 'ConditionalOperator':
            return ev(n['ch'][1], env) if ev(n['ch'][0], env) else ev(n['ch'][2], env)
        if k == 'UnaryOperator' and n.get('op') == '!':
            return not ev(n['ch'][0], env)
        if k == 'BinaryOperator' and n.get('op') in ('&&', '||'):
            a = ev(n['ch'][0], env)
            return (a and ev(n['ch'][1], env)) if n['op'] == '&&' else (a or ev(n['ch'][1], env))
        if k == 'BinaryOperator' and n.get('op') in ('==', '!=', '<', '<=', '>', '>=', '+', '-'):
            a, b = ev(n['ch'][0], env), ev(n['ch'][1], env)
            a = a[1] if isinstance(a, tuple) else a
            b = b[1] if isinstance(b, tuple) else b
            return {'==': a == b, '!=': a != b, '<': a < b, '<=': a <= b, '>': a > b, '>=': a >= b, '+': a + b, '-': a - b}[n['op']]
        if (n.get('oop') == '-' or (n.get('callee') or '').endswith('operator-')) and 'begin(dists)' in fp:
            a = ev(n['ch'][0], env)
            return a[1] if isinstance(a, tuple) else a
        if (n.get('callee') or '').endswith('::begin'):
            return 0
        raise AnalysisBroken('R17j: %s outside the interpreted fragment of the snap block' % k)

    def run(stmts, env):
        for sid in stmts:
            st = f.nodes.get(sid)
            if st is None or f.line(st) >= first_use:
                continue
            x = f.strip(sid) if st['k'] not in ('DeclStmt', 'IfStmt', 'CompoundStmt') else st
            if x['k'] == 'DeclStmt':
                for d in x.get('decls', []):
                    if d.get('init') and f.line(x) >= min(f.line(decl['startIndex'][0]), f.line(decl['endIndex'][0])) - 3 and \
                            d['name'] not in ('end', 'start', 't'):
                        try:
                            env[d['name']] = ev(d['init'], env)
                        except AnalysisBroken:
                            if d['name'] in ('startIndex', 'endIndex'):
                                raise
            elif x['k'] == 'IfStmt' and f.line(x) > f.line(decl['startIndex'][0]) - 3:
                if any(y['k'] == 'DeclRefExpr' and y.get('name') in ('startIndex', 'endIndex') for y in f.walk(x['id'])):
                    if ev(x['cond'], env):
                        run([x['then']], env)
                    elif x.get('else'):
                        run([x['else']], env)
            elif x['k'] == 'CompoundStmt':
                run(x['ch'], env)
            elif x['k'] == 'BinaryOperator' and x.get('op') == '=' and (f.strip(x['ch'][0]) or {}).get('name') in ('startIndex', 'endIndex'):
                env[f.strip(x['ch'][0])['name']] = ev(x['ch'][1], env)

    bad = None
    for c1 in (False, True):
        for c2 in (False, True):
            env = {'c1': c1, 'c2': c2}
            run(blk['ch'], env)
            got = (env.get('startIndex'), env.get('endIndex'))
            want = {(False, False): [(S, E)], (True, False): [(S, S)], (False, True): [(E, E)], (True, True): [(S, S), (E, E)]}[(c1, c2)]
            if got not in want and bad is None:
                bad = (c1, c2, got, want)
    rep.add('R17j', f.name, 'snap-consistent', bad is None, f.where(decl['startIndex'][0]),
            'all four outcomes of the two snap tests give the expected index pair' if bad is None else
            'with snap-to-start %s and snap-to-end %s the indices are (startIndex, endIndex) = %s relative to the bracketing vertices (%d, %d); '
            'expected %s' % (bad[0], bad[1], bad[2], S, E, ' or '.join(map(str, bad[3]))))


def run(rep):
    F = facts.load_units(UNITS)
    rep.units.update(UNITS)
    rep.functions.update(f.key for f in F.functions if f.record in (G + 'PathSimplifier', G + 'PathGeometric', G + 'PathHybridization'))
    r17a(rep, F)
    r17b(rep, F)
    r17c(rep, F)
    r17d(rep, F)
    r17f(rep, F)
    r17g(rep, F)
    r17h(rep, F)
    r17i(rep, F)
    r17e(rep, F)
    r17j(rep, F)
