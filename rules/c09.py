"""C09 -- copies and persisted data reproduce states and planner graphs (structural / finite-domain clauses).

R09a reject before read: marker and every signature test dominate the first payload read in all three loaders, each
     mismatch branch fails; a true result implies the payload was read; the writer fills every header field before it is
     written and the counts are the container sizes
R09b writer/reader tag tables compose to the identity on (start, goal) marks, adding each vertex exactly once (finite
     domain, order-sensitive model of mark-after-add); edges: endpoints and weight through the same fields, in order;
     every field of the serialised records is listed in serialize()
R09c compound serialize/deserialize walk the same offsets: ptr + l, then l += length of the same component; total length
     is the sum over all components
R09d copyToReals / copyFromReals iterate the same location list in the same order and move the same address
R09e WrapperStateSpace forwards every State-taking virtual of StateSpace with unwrapped arguments in order
R09f comparator functors compare their two parameters with each other (swap-symmetric operands), never one with itself
R09g index lists that are binary-searched are re-sorted after every append (same container)
"""
import itertools
import os
import re
from engine import facts, fd, lin, paths
from engine.facts import AnalysisBroken, src
from engine.shape import key, args, pkey, origin, for_loop, full_component_loop, component_call, state_params

UNITS = [src('base', 'src', 'StateSpace.cpp'), src('base', 'src', 'StateStorage.cpp'),
         src('base', 'src', 'PlannerDataStorage.cpp'), src('control', 'src', 'PlannerDataStorage.cpp'),
         src('base', 'src', 'PlannerData.cpp'), src('control', 'src', 'PlannerData.cpp'), src('base', 'spaces', 'src', 'WrapperStateSpace.cpp'),
         os.path.join(facts.INST, 'storage.cpp'), os.path.join(facts.INST, 'scoped.cpp')]


def nofp(s):
    return re.sub(r'#\d+', '', s)


# ---------------------------------------------------------------------------------------------------------------
PAYLOAD = ('loadVertices', 'loadEdges', 'loadStates', 'loadMetadata')


class LoadClient(paths.Client):
    """auto = (frozenset of established header facts, payload reads done)"""

    def __init__(self, need):
        self.need = need
        self.bad = []
        self.exits = []
        self.reads = 0

    def init(self, fn):
        return (frozenset(), 0)

    def fact_of(self, fn, node):
        fp = nofp(fn.fp(node['id']))
        if '.marker' in fp and 'MARKER' in fp.upper() or ('.marker' in fp and re.search(r"'?\d{6,}", fp)):
            return 'marker'
        if '.control_signature' in fp:
            return 'control_signature'
        if '.signature' in fp:
            return 'signature'
        return None

    def learn(self, fn, node, value, auto, ctx):
        op = node.get('op') or node.get('oop')
        if op in ('!=', '=='):
            f = self.fact_of(fn, node)
            if f and ((op == '!=' and value is False) or (op == '==' and value is True)):
                return (auto[0] | {f}, auto[1])
        return auto

    def on_node(self, fn, node, auto, ctx):
        c = node.get('callee', '')
        if c.split('::')[-1] in PAYLOAD:
            self.reads += 1
            miss = self.need - auto[0]
            if miss:
                self.bad.append((node['id'], sorted(miss), ctx.path()))
            return (auto[0], min(auto[1] + 1, 3))
        if c.endswith('PlannerDataStorage::load') or c.endswith('StateStorage::load'):
            return (auto[0], 3)  # delegation to another loader, which is checked itself
        return auto

    def at_exit(self, fn, ret, auto, ctx):
        rv = ctx.eval(ret['ch'][0]) if ret is not None and ret['ch'] else None
        self.exits.append((auto, rv, ctx.path()))


def r09a(rep, F):
    rep.rule('R09a', 'in StateStorage::load, base and control PlannerDataStorage::load the first payload read '
                     '(loadStates/loadVertices/loadEdges) is dominated by marker == MARKER and signature == computed (and '
                     'control_signature == computed): established on CFG edges, so a test that was merged with && or inverted '
                     'no longer discharges it; a loader that returns true has read the payload; store() assigns every header '
                     'field before writing the header and the counts are the container sizes')
    loaders = [('ompl::base::StateStorage::load', 'std::istream', {'marker', 'signature'}),
               ('ompl::base::PlannerDataStorage::load', 'std::istream', {'marker', 'signature'}),
               ('ompl::control::PlannerDataStorage::load', 'std::istream', {'marker', 'signature', 'control_signature'})]
    for name, sigk, need in loaders:
        fn = F.one(name, sig_contains=sigk)
        cl = LoadClient(frozenset(need))
        paths.run_function(fn, cl, F)
        if cl.reads == 0:
            raise AnalysisBroken('R09a: %s reads no payload' % name)
        rep.add('R09a', name, 'reject-before-read', not cl.bad, fn.where(cl.bad[0][0]) if cl.bad else fn.loc,
                'payload is read on a path where %s has not been verified' % cl.bad[0][1] if cl.bad else
                'marker and signature(s) verified on every path into the payload reads (%d read sites)' % cl.reads,
                cl.bad[0][2] if cl.bad else None)
        if fn.d['ret'] == 'bool':
            bad = [p for ((facts_, reads), rv, p) in cl.exits if rv is not False and reads < 2]
            rep.add('R09a', name, 'true-implies-loaded', not bad, fn.loc,
                    'a path returns true without having read vertices and edges' if bad else
                    'every true result has read the payload (%d exit states)' % len(cl.exits), bad[0] if bad else None)
    writers = [('ompl::base::StateStorage::store', 'std::ostream', ['marker', 'state_count', 'signature'], {'state_count': 'size(this.states_)'}),
               ('ompl::base::PlannerDataStorage::store', 'std::ostream', ['marker', 'vertex_count', 'edge_count', 'signature'],
                {'vertex_count': 'numVertices', 'edge_count': 'numEdges'}),
               ('ompl::control::PlannerDataStorage::store', 'std::ostream', ['marker', 'vertex_count', 'edge_count', 'signature', 'control_signature'],
                {'vertex_count': 'numVertices', 'edge_count': 'numEdges'})]
    for name, sigk, fields, counts in writers:
        fn = F.one(name, sig_contains=sigk)
        # header write: operator<< on the archive with the header local
        hdr = None
        for ds in [n for n in fn.walk() if n['k'] == 'DeclStmt']:
            for d in ds['decls']:
                if d['ty'].endswith('Header'):
                    hdr = '%s#%d' % (d['name'], d['did'])
        if hdr is None:
            raise AnalysisBroken('R09a: header local of %s not found' % name)
        wr = [n for n in fn.walk() if n.get('oop') == '<<' and key(fn, n['ch'][1]) == hdr]
        if len(wr) != 1:
            raise AnalysisBroken('R09a: header write of %s not found' % name)
        wline = fn.line(wr[0])
        done = {}
        linform = {}
        for n in fn.walk():
            if fn.line(n) > wline:
                continue
            if n['k'] == 'BinaryOperator' and n.get('op') == '=':
                t = fn.strip(n['ch'][0])
                if t is not None and t['k'] == 'MemberExpr' and key(fn, t['ch'][0]) == hdr:
                    done[t['name']] = nofp(fn.fp(n['ch'][1]))
                    linform[t['name']] = lin.lin(fn, n['ch'][1])
            if n.get('callee', '').endswith('::computeSignature'):
                a = fn.strip(args(fn, n)[0])
                if a is not None and a['k'] == 'MemberExpr' and key(fn, a['ch'][0]) == hdr:
                    done[a['name']] = nofp(fn.fp(n['ch'][0]))
        miss = [f for f in fields if f not in done]
        why = None
        if miss:
            why = 'header field(s) %s are not filled before the header is written' % miss
        else:
            for f, pat in counts.items():
                lf = linform.get(f) or {}
                if pat not in done[f] or len(lf) != 1 or list(lf.values()) != [1] or 1 in lf:
                    why = 'stored %s is %s, not the container size' % (f, done[f])
            if 'control_signature' in fields and 'ControlSpace' not in done['control_signature']:
                why = 'control_signature is not computed from the control space'
            if 'StateSpace' not in done['signature'] and 'space_' not in done['signature']:
                why = 'signature is not computed from the state space'
        pay = [c for c in fn.walk() if c.get('callee', '').split('::')[-1] in ('storeVertices', 'storeEdges', 'storeStates')]
        if why is None and any(fn.line(c) < wline for c in pay):
            why = 'payload written before the header'
        rep.add('R09a', name, 'header-complete', why is None, fn.where(wr[0]), why or 'marker, counts (= container sizes) and signature(s) filled, header written first')
    # load loops run over the stored counts
    for name in ('ompl::base::PlannerDataStorage::loadVertices', 'ompl::base::PlannerDataStorage::loadEdges',
                 'ompl::control::PlannerDataStorage::loadEdges', 'ompl::base::StateStorage::loadStates'):
        fn = F.one(name)
        fors = [n for n in fn.walk() if n['k'] == 'ForStmt']
        if not fors:
            raise AnalysisBroken('R09a: load loop of %s not found' % name)
        idx, start, cond, stride = for_loop(fn, fors[0])
        ok = start == {1: 0} and stride == 1 and cond is not None and cond[0] == 'le0' and dict(cond[1]).get('1') == 1 and \
            dict(cond[1]).get(idx) == 1 and len(cond[1]) == 3 and \
            any(('num' in k or 'count' in k) and v == -1 for k, v in cond[1])
        rep.add('R09a', name, 'loop-over-stored-count', ok, fn.where(fors[0]), 'reads exactly the stored number of records' if ok else
                'the load loop does not run i = 0 .. stored count - 1')


# ---------------------------------------------------------------------------------------------------------------
class Lenient(fd.Interp):
    """evaluates only the tag decision; everything else is opaque (an opaque value in a condition breaks the analysis)"""

    def __init__(self, fn, marks=None, tag=None):
        super().__init__(fn)
        self.marks = marks
        self.tag = tag
        self.ops = []
        self.stored = None

    def load(self, n, env):
        if n['k'] == 'MemberExpr' and n.get('name') == 'type_' and self.tag is not None:
            return ('enum', 'tag', self.tag)
        return ('obj', n.get('name'))

    def store(self, lhs, v, env):
        if lhs is not None and lhs['k'] == 'MemberExpr' and lhs.get('name') == 'type_':
            self.stored = v
        return

    def call(self, n, env):
        c = n.get('callee') or ''
        last = c.split('::')[-1]
        if last == 'isStartVertex' and self.marks is not None:
            return self.marks[0]
        if last == 'isGoalVertex' and self.marks is not None:
            return self.marks[1]
        if last in ('addStartVertex', 'addGoalVertex', 'addVertex', 'markGoalState', 'markStartState'):
            self.ops.append(last)
            return ('obj', last)
        for a in n['ch']:
            pass
        return ('obj', last)

    def binop(self, op, a, b):
        if isinstance(a, tuple) and isinstance(b, tuple) and a[0] == 'enum' and b[0] == 'enum':
            if op == '==':
                return a[2] == b[2]
            if op == '!=':
                return a[2] != b[2]
        return super().binop(op, a, b)

    def ev(self, nid, env):
        n = self.fn.nodes.get(nid)
        if n is not None and n['k'] in ('CXXNewExpr', 'CXXDeleteExpr', 'CXXConstCastExpr', 'CXXReinterpretCastExpr', 'CXXTemporaryObjectExpr',
                                        'CXXConstructExpr', 'InitListExpr', 'CXXThisExpr', 'ArraySubscriptExpr', 'StringLiteral',
                                        'CXXDefaultArgExpr', 'LambdaExpr', 'CXXStdInitializerListExpr'):
            for c in n['ch']:
                try:
                    self.ev(c, env)
                except AnalysisBroken:
                    pass
            return ('obj', n['k'])
        if n is not None and n['k'] == 'UnaryOperator' and n.get('op') in ('&', '*'):
            self.ev(n['ch'][0], env)
            return ('obj', 'addr')
        if n is not None and n['k'] == 'DeclRefExpr' and n.get('dk') == 'Enum':
            return ('enum', n.get('name'), n.get('v'))
        return super().ev(nid, env)

    def assign(self, t, v, env):
        lk = self.lkey(t) if t is not None else None
        if lk is not None:
            env[lk] = v
        else:
            self.store(t, v, env)


def r09b(rep, F):
    rep.rule('R09b', 'vertex marks: the writer\'s decision (isStart, isGoal) -> tag and the reader\'s decision tag -> '
                     '{addStartVertex, addGoalVertex, addVertex, markStart/GoalState} are evaluated on all four mark '
                     'combinations and composed; the model is order-sensitive (a mark applied before the vertex is added is '
                     'lost) and requires the identity on marks with the vertex added exactly once. Edges: endpoints and '
                     'weight are stored from and restored to the same fields in order. Every field of each serialised record '
                     'appears in its serialize()')
    wr = F.one('ompl::base::PlannerDataStorage::storeVertices')
    rd = F.one('ompl::base::PlannerDataStorage::loadVertices')
    wfor = [n for n in wr.walk() if n['k'] == 'ForStmt']
    rfor = [n for n in rd.walk() if n['k'] == 'ForStmt']
    if not wfor or not rfor:
        raise AnalysisBroken('R09b: vertex loops not found')
    bad = None
    table = []
    for marks in itertools.product((False, True), repeat=2):
        w = Lenient(wr, marks=marks)
        w.ex(wfor[0]['body'], {})
        if not (isinstance(w.stored, tuple) and w.stored[0] == 'enum'):
            raise AnalysisBroken('R09b: writer tag not recognised')
        r = Lenient(rd, tag=w.stored[2])
        r.ex(rfor[0]['body'], {})
        added, start, goal, adds = False, False, False, 0
        for op in r.ops:
            if op == 'addStartVertex':
                added, start, adds = True, True, adds + 1
            elif op == 'addGoalVertex':
                added, goal, adds = True, True, adds + 1
            elif op == 'addVertex':
                added, adds = True, adds + 1
            elif op == 'markGoalState' and added:
                goal = True
            elif op == 'markStartState' and added:
                start = True
        table.append({'start': marks[0], 'goal': marks[1], 'tag': w.stored[1], 'reader_ops': r.ops, 'restored': [start, goal]})
        if (start, goal) != marks or adds != 1:
            bad = bad or 'a vertex with start=%s goal=%s is written as %s and read back by %s: restored start=%s goal=%s, added %d ' \
                         'time(s)' % (marks[0], marks[1], w.stored[1], r.ops, start, goal, adds)
    rep.add('R09b', 'ompl::base::PlannerDataStorage::storeVertices+loadVertices', 'marks-round-trip', bad is None, rd.loc,
            bad or 'writer o reader is the identity on all four (start, goal) combinations', sample={'table': table})
    # the control variant must not override the vertex routines with something else
    for nm in ('storeVertices', 'loadVertices'):
        if F.by_name.get('ompl::control::PlannerDataStorage::' + nm):
            rep.undecided('R09b', 'ompl::control::PlannerDataStorage::' + nm, 'override', 'control variant overrides the vertex routine; not modelled')
    for (wname, rname) in (('ompl::base::PlannerDataStorage::storeEdges', 'ompl::base::PlannerDataStorage::loadEdges'),
                           ('ompl::control::PlannerDataStorage::storeEdges', 'ompl::control::PlannerDataStorage::loadEdges')):
        w, r = F.one(wname), F.one(rname)
        wst = {}
        for n in w.walk():
            if n['k'] == 'BinaryOperator' and n.get('op') == '=' or (n['k'] == 'CXXOperatorCallExpr' and n.get('oop') == '=' and len(n['ch']) == 2):
                t = nofp(w.fp(n['ch'][0]))
                if t.startswith('edgeData.'):
                    wst[t] = nofp(w.fp(n['ch'][1]))
        why = None
        ep = [v for k, v in wst.items() if 'endpoints_' in k]
        if not any('endpoints_' in k for k in wst) or not any('weight_' in k for k in wst):
            why = 'writer does not store endpoints and weight'
        add = [c for c in r.walk() if c.get('callee', '').endswith('::addEdge')]
        if why is None and len(add) != 1:
            why = 'reader does not add exactly one edge per record'
        if why is None:
            a = [nofp(r.fp(x)) for x in args(r, add[0])]
            if not (a[0].endswith('endpoints_.first') and a[1].endswith('endpoints_.second')):
                why = 'edge endpoints restored as (%s, %s), not (first, second)' % (a[0], a[1])
            elif not any('weight_' in x for x in a):
                why = 'edge weight is not restored'
        if why is None:
            # writer: which vertex goes to .first / .second
            fst = [v for k, v in wst.items() if k.endswith('endpoints_.first')] + \
                  [v for k, v in wst.items() if k.endswith('endpoints_')]
            wt = [v for k, v in wst.items() if 'weight_' in k]
            if wt and not any(t in wt[0] for t in ('value', 'weight', 'Weight', 'second')):
                why = 'stored weight is %s' % wt[0]
        rep.add('R09b', wname + '+loadEdges', 'edge-fields-round-trip', why is None, r.loc, why or 'endpoints (first, second) and weight stored and restored through the same fields')
    # serialize() lists every field
    n = 0
    for rname, rs in F.records.items():
        if not any(rname.endswith(s) for s in ('::Header', '::PlannerDataVertexData', '::PlannerDataEdgeData')):
            continue
        sers = [f for f in F.functions if f.record == rname and f.name.endswith('::serialize')]
        if not sers:
            continue
        fields = [f['name'] for f in rs[0]['fields']]
        bases = rs[0]['bases']
        for f in sers[:1]:
            n += 1
            listed = set()
            for x in f.walk():
                if x['k'] == 'MemberExpr' and x.get('dk') == 'Field':
                    listed.add(x['name'])
            base_ok = True
            if bases:
                base_ok = any('base_object' in (c.get('callee') or '') for c in f.walk())
            miss = [fl for fl in fields if fl not in listed]
            rep.add('R09b', rname + '::serialize', 'all-fields-listed', not miss and base_ok, f.loc,
                    'every field %s is archived%s' % (fields, ' (base class too)' if bases else '') if not miss and base_ok else
                    'field(s) %s%s are not archived: they come back uninitialised' % (miss, '' if base_ok else ' and the base class'))
    rep.require_count('R09b', 'serialised records', n, 4)


# ---------------------------------------------------------------------------------------------------------------
def r09c(rep, F):
    rep.rule('R09c', 'CompoundStateSpace::serialize / deserialize: one loop over all components; component i is called with '
                     'buffer + l and component i of the state, then l += components_[i]->getSerializationLength() (same '
                     'component, after the call); getSerializationLength sums over all components')
    for nm in ('serialize', 'deserialize'):
        fn = F.one('ompl::base::CompoundStateSpace::' + nm)
        fors = [n for n in fn.walk() if n['k'] == 'ForStmt']
        why = None
        if len(fors) != 1:
            raise AnalysisBroken('R09c: loop of %s not found' % fn.name)
        idx, w = full_component_loop(fn, fors[0])
        if idx is None:
            why = w
        else:
            calls = [c for c in fn.walk(fors[0]['body']) if c.get('callee') == 'ompl::base::StateSpace::' + nm]
            incs = [n for n in fn.walk(fors[0]['body']) if n['k'] == 'CompoundAssignOperator' and n.get('op') == '+=']
            if len(calls) != 1 or len(incs) != 1:
                why = 'loop body is not one component call and one offset increment'
            else:
                w2 = component_call(fn, calls[0], idx, nm, state_params(fn))
                lk = key(fn, incs[0]['ch'][0])
                bufarg = [a for a in args(fn, calls[0]) if 'State' not in (fn.nodes[a].get('ty') or '')]
                bfp = nofp(fn.fp(bufarg[0])) if bufarg else ''
                inc_fp = nofp(fn.fp(incs[0]['ch'][1]))
                linit = [d for ds in fn.walk() if ds['k'] == 'DeclStmt' for d in ds['decls'] if '%s#%d' % (d['name'], d['did']) == lk]
                if w2:
                    why = w2
                elif not (lk and nofp(lk) in bfp and 'serialization' in bfp and '+' in bfp):
                    why = 'the component is not handed buffer + running offset'
                elif 'getSerializationLength' not in inc_fp or '[%s]' % nofp(idx) not in inc_fp.replace('operator[](this.components_,', '[').replace(')', ']'):
                    if not re.search(r'operator\[\]\(this\.components_,%s\)' % re.escape(nofp(idx)), inc_fp):
                        why = 'the offset is not advanced by the length of the same component'
                if why is None and fn.line(incs[0]) < fn.line(calls[0]):
                    why = 'the offset is advanced before the component is (de)serialised'
                if why is None and (not linit or not linit[0].get('init') or lin.lin(fn, linit[0]['init']) != {1: 0}):
                    why = 'the running offset does not start at 0'
        rep.add('R09c', fn.name, 'offsets', why is None, fn.loc, why or 'component i at buffer + l, then l += length(component i), for all components')
    gl = F.one('ompl::base::CompoundStateSpace::getSerializationLength')
    rf = [n for n in gl.walk() if n['k'] == 'CXXForRangeStmt' and 'components_' in gl.fp(n['range'])]
    fr = [n for n in gl.walk() if n['k'] == 'ForStmt']
    ok = False
    if rf:
        ok = any(n['k'] == 'CompoundAssignOperator' and n.get('op') == '+=' and 'getSerializationLength' in gl.fp(n['ch'][1]) for n in gl.walk(rf[0]['body']))
    elif fr:
        idx, w = full_component_loop(gl, fr[0])
        ok = idx is not None and any(n['k'] == 'CompoundAssignOperator' and n.get('op') == '+=' for n in gl.walk(fr[0]['body']))
    rep.add('R09c', gl.name, 'sum-over-all', ok, gl.loc, 'sum of the components\' lengths' if ok else 'not the sum over all components')
    # copyState / equalStates / allocState / freeState of the compound go over all components with matching indices
    from engine.shape import component_loop
    for nm in ('copyState', 'equalStates'):
        fn = F.one('ompl::base::CompoundStateSpace::' + nm)
        r = component_loop(fn, nm)
        rep.add('R09c', fn.name, 'per-component', r[0], fn.loc, r[1])


def r09d(rep, F):
    rep.rule('R09d', 'copyToReals and copyFromReals walk getValueLocations() by the same index over its whole length and move '
                     'reals[i] <-> *getValueAddressAtLocation(state, locations[i]) in opposite directions')
    forms = {}
    for nm in ('copyToReals', 'copyFromReals'):
        fn = F.one('ompl::base::StateSpace::' + nm)
        fors = [n for n in fn.walk() if n['k'] == 'ForStmt']
        if len(fors) != 1:
            raise AnalysisBroken('R09d: loop of %s not found' % fn.name)
        idx, start, cond, stride = for_loop(fn, fors[0])
        st = [n for n in fn.walk(fors[0]['body']) if n['k'] == 'BinaryOperator' and n.get('op') == '=']
        why = None
        if start != {1: 0} or stride != 1 or cond is None or cond[0] != 'le0':
            why = 'loop is not i = 0 .. n-1 with unit stride'
        elif len(st) != 1:
            why = 'loop body is not a single move'
        else:
            l, r = nofp(fn.fp(st[0]['ch'][0])), nofp(fn.fp(st[0]['ch'][1]))
            i = nofp(idx)
            realside, addrside = (l, r) if nm == 'copyToReals' else (r, l)
            if not re.search(r'operator\[\]\(reals,%s\)' % re.escape(i), realside):
                why = 'the vector element is not reals[i]'
            elif 'getValueAddressAtLocation' not in addrside or not re.search(r'operator\[\]\(locations,%s\)' % re.escape(i), addrside):
                why = 'the state address is not the one at locations[i]'
            bound = [k for k, v in cond[1] if v == -1]
            forms[nm] = bound
            if why is None and not any('size(' in b for b in bound):
                why = 'loop bound is not a container size'
        rep.add('R09d', fn.name, 'mirror', why is None, fn.loc, why or 'reals[i] <-> *address(locations[i]) for every i')


def r09e(rep, F):
    rep.rule('R09e', 'WrapperStateSpace: every virtual of StateSpace that takes or returns a State and is overridden forwards to '
                     'the wrapped space\'s method of the same name with each State argument unwrapped (->getState()) in the same '
                     'position and the other arguments unchanged; the State-taking virtuals of StateSpace are all overridden')
    base = F.record('ompl::base::StateSpace')
    wrap = F.record('ompl::base::WrapperStateSpace')
    need = [m['name'] for m in base['methods'] if m.get('virtual') and 'State *' in m['sig'] and not m['name'].startswith('~')]
    have = {m['name'] for m in wrap['methods']}
    miss = sorted(set(n for n in need if n not in have and n not in ('printState',)))
    rep.add('R09e', 'ompl::base::WrapperStateSpace', 'overrides-all-state-virtuals', not miss, wrap['loc'],
            'all %d State-taking virtuals are overridden' % len(set(need)) if not miss else 'State-taking virtuals %s are not overridden: '
            'they would act on the wrapper state instead of the wrapped one' % miss)
    n = 0
    for f in F.functions:
        if f.record != 'ompl::base::WrapperStateSpace' or f.name.split('::')[-1] not in need:
            continue
        sp = [i for i, p in enumerate(f.params) if 'State' in p['ty'] and '*' in p['ty'] and 'vector' not in p['ty']]
        meth = f.name.split('::')[-1]
        calls = [c for c in f.walk() if c.get('callee') == 'ompl::base::StateSpace::' + meth and 'space_' in f.fp(c['ch'][0])]
        if meth in ('allocState', 'freeState', 'copyState', 'cloneState'):
            # allocation wraps/unwraps explicitly
            pass
        if not calls:
            rep.add('R09e', f.name + f.sig, 'forwards', False, f.loc, 'does not call space_->%s' % meth)
            n += 1
            continue
        n += 1
        a = args(f, calls[0])
        why = None
        for i, p in enumerate(f.params):
            if i >= len(a):
                break
            o, path = origin(f, a[i])
            if o != pkey(f, i):
                why = 'argument %d of space_->%s derives from %s, not from parameter %s' % (i, meth, o, p['name'])
                break
            if i in sp and not any('getState' in nofp(f.fp(x['id'])) for x in f.walk(a[i])):
                why = 'state argument %d is forwarded without unwrapping' % i
                break
        rep.add('R09e', f.name + f.sig[:50], 'forwards', why is None, f.loc, why or 'forwards to space_->%s with unwrapped states in order' % meth)
    rep.require_count('R09e', 'forwarding overrides', n, 12)


def r09f(rep, F):
    rep.rule('R09f', 'comparator functors (bool operator()(const T &a, const T &b) of a named record): every comparison in the '
                     'body has operands that are images of each other under a <-> b; a comparison of one parameter with itself '
                     'is constant and makes distinct keys equivalent (std::set drops them)')
    n = 0
    for f in F.functions:
        if not f.name.endswith('::operator()') or len(f.params) != 2 or f.d['ret'] != 'bool' or f.d.get('lambda_of') is not None:
            continue
        if f.params[0]['ty'] != f.params[1]['ty'] or not f.file.startswith(facts.SRC) or '(lambda' in f.name:
            continue
        a, b = pkey(f, 0), pkey(f, 1)
        cmps = [x for x in f.walk() if (x['k'] == 'BinaryOperator' and x.get('op') in ('<', '>', '<=', '>=', '==', '!=')) or
                (x['k'] == 'CXXOperatorCallExpr' and x.get('oop') in ('<', '>', '<=', '>=', '==', '!='))]
        if not cmps:
            continue
        n += 1
        bad = None
        for c in cmps:
            l, r = f.fp(c['ch'][0]), f.fp(c['ch'][1])
            if a not in l + r and b not in l + r:
                continue
            sw = l.replace(a, '\0').replace(b, a).replace('\0', b)
            if (a in l and a in r and b not in l + r) or (b in l and b in r and a not in l + r):
                bad = 'compares %s with %s: both operands come from the same parameter' % (nofp(l), nofp(r))
            elif sw != r:
                bad = bad or None  # asymmetric but mixed forms (e.g. a.x < b.y) are not decided here
        rep.add('R09f', f.name, 'operands-swap-symmetric', bad is None, f.loc, bad or '%d comparisons, each between the two parameters' % len(cmps))
    rep.require_count('R09f', 'comparator functors', n, 1)


def r09j(rep, F):
    rep.rule('R09j', 'ordering functors over elements that carry a state space (the keys of std::set<SubstateLocation>, by which '
                     'getCommonSubspaces collects the subspaces two spaces share): among the keys the functor compares there is one '
                     'that separates any two distinct spaces -- the space name (unique per space in the library: StateSpace::setName) '
                     'or the space pointer.  Ties broken only on dimension / type make two equal-shaped sibling subspaces equivalent; '
                     'std::set keeps one of them and copyStateData(…, subspaces) silently transfers only that one')
    n = 0
    for f in F.functions:
        if not f.name.endswith('::operator()') or len(f.params) != 2 or f.d['ret'] != 'bool' or f.d.get('lambda_of') is not None:
            continue
        if f.params[0]['ty'] != f.params[1]['ty'] or not f.file.startswith(facts.SRC) or '(lambda' in f.name:
            continue
        cmps = [x for x in f.walk() if (x['k'] == 'BinaryOperator' and x.get('op') in ('<', '>', '<=', '>=', '==', '!=')) or
                (x['k'] == 'CXXOperatorCallExpr' and x.get('oop') in ('<', '>', '<=', '>=', '==', '!='))]
        keys = set()
        for c in cmps:
            for side in c['ch'][-2:]:
                fp = f.fp(side)
                if '.space' not in fp:
                    continue
                sn = f.strip(side)
                if sn is not None and sn.get('callee'):
                    keys.add(sn['callee'].split('::')[-1])
                elif sn is not None and sn['k'] == 'MemberExpr' and sn.get('name') == 'space':
                    keys.add('<pointer>')
                else:
                    keys.add(nofp(fp)[:40])
        if not keys:
            continue
        n += 1
        ok = bool(keys & {'getName', '<pointer>'})
        rep.add('R09j', f.name, 'separates-distinct-spaces', ok, f.loc,
                'compares %s: distinct spaces are never equivalent' % sorted(keys) if ok else
                'compares only %s: two distinct subspaces with the same values of these keys are equivalent, and a std::set keyed by this '
                'functor keeps only one of them' % sorted(keys))
    rep.require_count('R09j', 'space-keyed ordering functors', n, 1)


class SortAfterAppend(paths.Client):
    track = 'none'

    def __init__(self, member):
        self.member = member
        self.bad = []
        self.appends = 0

    def init(self, fn):
        return False

    def on_node(self, fn, node, auto, ctx):
        c = node.get('callee', '')
        if c in ('std::vector::push_back', 'std::vector::emplace_back') and nofp(fn.fp(node['ch'][0])) == 'this.' + self.member:
            self.appends += 1
            return True
        if c in ('std::sort', 'std::stable_sort'):
            a = [nofp(fn.fp(x)) for x in args(fn, node)]
            if len(a) >= 2 and 'this.' + self.member in a[0] and 'this.' + self.member in a[1]:
                return False
        return auto

    def at_exit(self, fn, ret, auto, ctx):
        if auto:
            self.bad.append(ctx.path())


def r09g(rep, F):
    rep.rule('R09g', 'PlannerData: a member vector that is looked up with std::binary_search is sorted again (std::sort over the '
                     'same member) after every append, on all paths -- otherwise isStartVertex/isGoalVertex miss marks and the '
                     'stored vertex tags are wrong')
    searched = set()
    for f in F.functions:
        if f.record != 'ompl::base::PlannerData':
            continue
        for c in f.walk():
            if c.get('callee') == 'std::binary_search':
                m = re.search(r'this\.(\w+)', nofp(f.fp(args(f, c)[0])))
                if m:
                    searched.add(m.group(1))
    if len(searched) < 2:
        raise AnalysisBroken('R09g: binary-searched index lists of PlannerData not found')
    n = 0
    for f in F.functions:
        if f.record != 'ompl::base::PlannerData':
            continue
        for m in sorted(searched):
            cl = SortAfterAppend(m)
            paths.run_function(f, cl, F)
            if not cl.appends:
                continue
            n += 1
            rep.add('R09g', f.name, 'sorted-after-append:' + m, not cl.bad, f.loc,
                    '%s is appended to and not re-sorted before returning (a different container is sorted): binary_search on '
                    'it is undefined and marks are missed' % m if cl.bad else '%s re-sorted after every append' % m,
                    cl.bad[0] if cl.bad else None)
    rep.require_count('R09g', 'appends to binary-searched lists', n, 2)


def r09h(rep, F):
    rep.rule('R09h', 'PlannerData::extractReachable copies every edge: in the loop over the neighbours obtained from getEdges(v, .) the '
                     'data.addEdge call is a top-level statement of the loop body and nothing before it can leave the iteration '
                     '(continue / break / return / a conditional around it) -- an edge to a vertex that was extracted earlier '
                     '(diamonds, cycles, bidirectional edges) must still be added')
    f = F.one('ompl::base::PlannerData::extractReachable')
    loops = [x for x in f.walk() if x['k'] in ('CXXForRangeStmt', 'ForStmt') and any((c.get('callee') or '').endswith('PlannerData::addEdge') for c in f.walk(x['body']))]
    if len(loops) != 1:
        raise AnalysisBroken('R09h: neighbour loop of extractReachable not found')
    lp = loops[0]
    body = f.nodes[lp['body']]
    stmts = body['ch'] if body['k'] == 'CompoundStmt' else [lp['body']]
    why = 'addEdge is not a top-level statement of the loop body (it is conditional)'
    ok = False
    for sid in stmts:
        st = f.strip(sid)
        if st is not None and (st.get('callee') or '').endswith('PlannerData::addEdge'):
            ok = True
            why = 'addEdge runs on every iteration'
            break
        if any(z['k'] in ('ContinueStmt', 'BreakStmt', 'ReturnStmt', 'CXXThrowExpr') for z in f.walk(sid)):
            why = 'an iteration can be left (line %d) before its edge is added: edges to vertices that were already extracted are dropped' % f.line(f.nodes[sid])
            break
    rep.add('R09h', f.name, 'every-edge-copied', ok, f.where(lp), why)


def r09i(rep, F):
    rep.rule('R09i', 'load paths do not swallow failures: in StateStorage, StateStorageWithMetadata and both PlannerDataStorage classes every '
                     'catch handler inside a function whose name starts with load either rethrows or reports through the log (OMPL_ERROR / '
                     'OMPL_WARN) -- a truncated or corrupt stream must be rejected and reported, not replaced by defaults')
    n = 0
    recs = ('ompl::base::StateStorage', 'ompl::base::StateStorageWithMetadata', 'ompl::base::PlannerDataStorage', 'ompl::control::PlannerDataStorage')
    loads = 0
    for f in F.functions:
        if not f.body or (f.record or '').split('<')[0] not in recs or not f.name.split('::')[-1].startswith('load'):
            continue
        loads += 1
        for h in [x for x in f.walk() if x['k'] == 'CXXCatchStmt']:
            n += 1
            ok = any(z['k'] == 'CXXThrowExpr' or (z.get('callee') or '') == 'ompl::msg::log' for z in f.walk(h['id']))
            rep.add('R09i', f.name, 'catch-reports#%d' % f.line(h), ok, f.where(h), 'the handler reports or rethrows' if ok else
                    'a catch handler in a load function neither rethrows nor logs: the failure is hidden from load(), which reports success '
                    'for a stream it could not read')
    if loads < 8:
        raise AnalysisBroken('R09i: only %d load functions found (StateStorageWithMetadata instantiation missing?)' % loads)
    rep.require_count('R09i', 'catch handlers on load paths', n, 3)


def r09k(rep, F):
    rep.rule('R09k', 'ScopedState converts to and from its vector of reals through ONE mechanism: reals(), operator=(const std::vector<double>&), '
                     'operator=(double) and operator[] all walk the live value addresses (getValueAddressAtIndex), or all go through the '
                     'value-location table (copyToReals / copyFromReals).  The table is filled by setup() and not refreshed when the space is '
                     'changed afterwards, so a reader and a writer on different mechanisms disagree for a space that was never set up (the '
                     'result of state1 ^ state2) or that grew after setup(): the round trip state -> reals -> state no longer reproduces the state')
    mech = {}
    for f in F.functions:
        if not (f.record or '').startswith('ompl::base::ScopedState') or not f.body:
            continue
        short = f.name.split('::')[-1]
        role = None
        if short == 'reals':
            role = 'reals()'
        elif short == 'operator=' and ('vector<double>' in f.sig or 'const double' in f.sig or f.sig.startswith('ScopedState<T> &(double)') or '(double)' in f.sig):
            role = 'operator=(%s)' % ('vector' if 'vector' in f.sig else 'double')
        elif short == 'operator[]' and 'unsigned int' in f.sig:
            role = 'operator[](index)' + (' const' if f.d.get('const') else '')
        if role is None:
            continue
        m = set()
        for c in f.walk():
            cal = (c.get('callee') or '').split('::')[-1]
            if cal == 'getValueAddressAtIndex':
                m.add('live')
            elif cal in ('copyToReals', 'copyFromReals', 'getValueLocations', 'getValueAddressAtLocation'):
                m.add('table')
        mech[role] = (m, f)
    if len(mech) < 4 or 'reals()' not in mech or 'operator=(vector)' not in mech:
        raise AnalysisBroken('R09k: ScopedState accessors not found (%s)' % sorted(mech))
    ref = mech['operator=(vector)'][0]
    for role, (m, f) in sorted(mech.items()):
        ok = m == ref and len(m) == 1
        rep.add('R09k', 'ompl::base::ScopedState', 'one-mechanism:' + role, ok, f.loc,
                'walks the %s values like operator=(vector)' % '/'.join(sorted(m)) if ok else
                '%s reads/writes the values through %s while operator=(const std::vector<double>&) uses %s' %
                (role, '/'.join(sorted(m)) or 'neither mechanism', '/'.join(sorted(ref))))


def r09l(rep, F):
    rep.rule('R09l', 'PlannerData::extractStateStorage keeps its two index domains apart: indexMap maps a planner-data vertex index to the slot '
                     'the vertex state got in the storage; in the loop over indexMap the edges are fetched for the VERTEX index (getEdges(it.first)), '
                     'the metadata row is the one of the SLOT (getMetadata(it.second)) and every stored neighbour is translated to a slot '
                     '(indexMap[edgeList[k]]).  Slots follow the address order of the states, not the vertex order, so a row attached by vertex '
                     'index gives the adjacency list of one vertex to the state of another')
    fn = F.one('ompl::base::PlannerData::extractStateStorage')
    loops = [x for x in fn.walk() if x['k'] == 'CXXForRangeStmt' and 'indexMap' in nofp(fn.fp(x['range']))]
    if len(loops) != 1:
        raise AnalysisBroken('R09l: the loop over indexMap in extractStateStorage was not found')
    lp = loops[0]
    vd = fn.nodes[lp['var']]['decls'][0]
    it = '%s#%d' % (vd['name'], vd['did'])
    ge = [c for c in fn.walk(lp['body']) if (c.get('callee') or '').endswith('PlannerData::getEdges')]
    gm = [c for c in fn.walk(lp['body']) if (c.get('callee') or '').endswith('::getMetadata')]
    if not ge or not gm:
        raise AnalysisBroken('R09l: getEdges / getMetadata calls not found')
    a = fn.fp(args(fn, ge[0])[0])
    ok = a == it + '.first'
    rep.add('R09l', fn.name, 'edges-of-vertex-index', ok, fn.where(ge[0]), 'getEdges(it.first)' if ok else
            'the edges are fetched for %s, which is not the vertex index it.first' % nofp(a))
    a = fn.fp(args(fn, gm[0])[0])
    ok = a == it + '.second'
    rep.add('R09l', fn.name, 'metadata-of-slot', ok, fn.where(gm[0]), 'getMetadata(it.second)' if ok else
            'the metadata row is selected by %s, not by the storage slot it.second of the vertex' % nofp(a))
    st = [x for x in fn.walk(lp['body']) if (x['k'] == 'BinaryOperator' and x.get('op') == '=' or x['k'] == 'CXXOperatorCallExpr' and x.get('oop') == '=')
          and 'md' in nofp(fn.fp(x['ch'][0])) and 'operator[]' in fn.fp(x['ch'][0])]
    ok = bool(st) and all(re.search(r'operator\[\]\(indexMap#\d+,.*edgeList', fn.fp(x['ch'][-1])) for x in st)
    rep.add('R09l', fn.name, 'neighbours-translated-to-slots', ok, fn.where(st[0]) if st else fn.loc,
            'md[k] = indexMap[edgeList[k]]' if ok else 'a stored neighbour is not translated from vertex index to storage slot through indexMap')


CLEAR_EXCEPTIONS = {}


def r09m(rep, F):
    rep.rule('R09m', 'PlannerData::clear() forgets the whole graph: every data member that a mutator of PlannerData (addVertex, addStartVertex, '
                     'markStartState, removeVertex, decoupleFromPlanner, ...) writes is also written by the clear() closure (clear + '
                     'freeMemory).  PlannerDataStorage::load() begins with pd.clear(): a member that survives it -- the state-to-index map, the '
                     'start / goal index lists -- makes the loaded graph differ from the stored one (extra start / goal marks, states '
                     'resolved to indices of the previous graph)')
    from rules import c03
    rec = 'ompl::base::PlannerData'
    byrec = {}
    for f in F.functions:
        if f.body:
            byrec.setdefault(f.record, []).append(f)
    fs = byrec.get(rec, [])
    if not fs:
        raise AnalysisBroken('R09m: PlannerData vanished')
    anc = c03._ancestors(F, rec)
    others = [g for g in fs if g.d.get('kind') not in ('ctor', 'dtor') and g.name.split('::')[-1] not in ('clear', 'freeMemory')]
    W = c03._field_writes(others)
    C = c03._field_writes(c03._class_closure(F, byrec, rec, anc, 'clear'))
    n = 0
    for fld, ws in sorted(W.items()):
        role = 'cleared:' + fld
        if (rec, fld) in CLEAR_EXCEPTIONS:
            rep.undecided('R09m', rec + '::clear', role, CLEAR_EXCEPTIONS[(rec, fld)])
            continue
        n += 1
        ok = fld in C
        rep.add('R09m', rec + '::clear', role, ok, (C[fld][0][3].where(C[fld][0][2]) if ok else ws[0][3].where(ws[0][2])),
                'reset by %s()' % C[fld][0][1] if ok else
                '%s is modified by %s() but clear() does not touch it: a PlannerData that is cleared (as load() does first) and filled again '
                'still holds what the previous graph put there' % (fld, ws[0][1]))
    rep.require_count('R09m', 'PlannerData members written by mutators', n, 4)


def r09n(rep, F):
    rep.rule('R09n', 'decoupleFromPlanner() re-keys the state index: for a vertex whose state is replaced by a clone (vtx.state_ = clone) the key '
                     'erased from stateIndexMap_ is the OLD state pointer, i.e. a value read from the vertex before the store (a local taken '
                     'earlier), and the clone is entered under the vertex index.  An erase whose argument reads the vertex state after the store '
                     'erases the clone\'s (not yet present) key: the old pointer stays in the map and, once its memory is reused, a state that '
                     'was never added is reported as a vertex.  The control override copies every edge control: the edge loop is reached on '
                     'every path (no early return before it)')
    fn = F.one('ompl::base::PlannerData::decoupleFromPlanner')
    stores = [x for x in fn.walk() if x['k'] == 'BinaryOperator' and x.get('op') == '=' and (fn.strip(x['ch'][0]) or {}).get('name') == 'state_']
    erases = [c for c in fn.walk() if (c.get('callee') or '').endswith('::erase') and 'stateIndexMap_' in fn.fp(c['ch'][0])]
    if len(stores) != 1 or len(erases) != 1:
        raise AnalysisBroken('R09n: store of the clone / erase of the old key not found in decoupleFromPlanner')
    st, er = stores[0], erases[0]
    arg = fn.strip(args(fn, er)[0])
    ok = False
    why = 'the erased key is not a local taken before the store'
    if arg is not None and arg['k'] == 'DeclRefExpr' and arg.get('dk') == 'Local':
        k = '%s#%d' % (arg['name'], arg['did'])
        decl = [x for x in fn.walk() if x['k'] == 'DeclStmt' and any('%s#%d' % (d['name'], d['did']) == k for d in x.get('decls', []))]
        ok = bool(decl) and fn.line(decl[0]) < fn.line(st) and 'getState' in fn.fp(decl[0]['id']) + ''.join(fn.fp(d['init']) for d in decl[0]['decls'] if d.get('init'))
    elif arg is not None and fn.line(er) > fn.line(st) and any((x.get('callee') or '').endswith('::getState') or x.get('name') == 'state_' for x in fn.walk(arg['id'])):
        why = 'the erased key is read from the vertex AFTER vtx.state_ was replaced by the clone: it is the clone, the old pointer stays in the map'
    rep.add('R09n', fn.name, 'old-key-erased', ok, fn.where(er), 'erases the pointer saved before the store' if ok else why)
    ins = [x for x in fn.walk() if (x['k'] == 'BinaryOperator' and x.get('op') == '=' or x['k'] == 'CXXOperatorCallExpr' and x.get('oop') == '=') and
           'stateIndexMap_' in fn.fp(x['ch'][0]) and 'operator[]' in fn.fp(x['ch'][0])]
    okk = bool(ins) and key(fn, ins[0]['ch'][-1]) is not None and fn.line(ins[0]) > fn.line(st)
    rep.add('R09n', fn.name, 'clone-entered-under-index', okk, fn.where(ins[0]) if ins else fn.loc,
            'stateIndexMap_[clone] = i' if okk else 'the clone is not entered into the state index under the vertex index')
    cf = F.one('ompl::control::PlannerData::decoupleFromPlanner')
    loops = [x for x in cf.walk() if x['k'] == 'ForStmt']
    rets = [x for x in cf.walk() if x['k'] == 'ReturnStmt']
    early = [r for r in rets if loops and cf.line(r) < cf.line(loops[0])]
    rep.add('R09n', cf.name, 'edge-loop-on-every-path', bool(loops) and not early, cf.where(early[0]) if early else cf.loc,
            'every call scans the edges and clones the controls that are not decoupled yet' if loops and not early else
            'an early return skips the loop that clones the edge controls: edges added after an earlier decoupling keep pointing at '
            'planner / caller memory')


def run(rep):
    F = facts.load_units(UNITS)
    rep.units.update(UNITS)
    rep.functions.update(f.key for f in F.functions if f.file.endswith(('.cpp', 'Storage.h', 'WrapperStateSpace.h')))
    r09a(rep, F)
    r09b(rep, F)
    r09c(rep, F)
    r09d(rep, F)
    r09e(rep, F)
    r09f(rep, F)
    r09g(rep, F)
    r09h(rep, F)
    r09i(rep, F)
    r09j(rep, F)
    r09k(rep, F)
    r09l(rep, F)
    r09m(rep, F)
    r09n(rep, F)
