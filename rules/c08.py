"""C08 -- bound enforcement and samplers keep states inside the space (finite-domain / structural clauses).

R08a scalar samplers (R^n, SO(2), time, discrete): each of the three methods is executed abstractly with the RNG replaced by
     an adversarial oracle constrained only by its contract (uniformReal in [a,b), uniformInt in [a,b], gaussian anywhere);
     the resulting state must satisfy the space's own satisfiesBounds (both bodies interpreted over exact rationals)
R08b enforceBounds of the same spaces: result in bounds, in-bounds input unchanged, idempotent -- on every representative
     point of the ordering of the value against the bounds (including the boundary points themselves)
R08c valid-state samplers: a true result requires that the output state's last write was followed by a successful
     validity check (typestate over the CFG with verdict variables forked exactly)
R08d delegating samplers (compound, subspace, wrapper) forward per component / through scratch states without aliasing the
     output with the near / mean argument; no call site in the library passes one state as both
"""
import itertools
import math
import re
from fractions import Fraction as Fr
from engine import facts, fd, lin, paths
from engine.facts import AnalysisBroken, src
from engine.shape import key, args, pkey, component_loop

S = 'base/spaces/src/'
UNITS = [src('base', 'src', 'StateSampler.cpp'), src(S + 'RealVectorStateSpace.cpp'), src(S + 'SO2StateSpace.cpp'),
         src(S + 'SO3StateSpace.cpp'), src(S + 'TimeStateSpace.cpp'), src(S + 'DiscreteStateSpace.cpp'),
         src(S + 'WrapperStateSpace.cpp'), src('base', 'src', 'StateSpace.cpp'),
         src('base', 'spaces', 'constraint', 'src', 'ConstrainedStateSpace.cpp'),
         src('base', 'src', 'SpaceInformation.cpp'), facts.INST + '/headers.cpp'] + \
        [src('base', 'samplers', 'src', n + 'ValidStateSampler.cpp') for n in
         ('Uniform', 'Gaussian', 'ObstacleBased', 'BridgeTest', 'MaximizeClearance', 'MinimumClearance')] + \
        [src('util', 'src', 'RandomNumbers.cpp')]

B = 'ompl::base::'
EPS = Fr(1, 1000)


def nofp(s):
    return re.sub(r'#\d+', '', s)


class Oracle:
    """adversarial RNG: a fixed script of choices, replayed; records how many choices were consumed"""

    def __init__(self, script):
        self.script = list(script)
        self.i = 0

    def pick(self, n):
        if self.i >= len(self.script):
            c = 0
        else:
            c = self.script[self.i]
        self.i += 1
        return c % n


class SpaceInterp(fd.Interp):
    """abstract execution of sampler / enforceBounds / satisfiesBounds bodies over exact rationals.
    model: one scalar per state (values[0] / value / position); bounds low = -1, high = 1; pi := 1"""
    max_steps = 5000

    def __init__(self, fn, F, model, oracle=None):
        super().__init__(fn)
        self.F = F
        self.m = model      # {'states': {key: value}, 'space': class name}
        self.oracle = oracle

    # -- state access ------------------------------------------------------------------------------------------
    def state_of(self, nid):
        """which abstract state an expression denotes (parameter name / member name)"""
        n = self.fn.strip(nid)
        guard = 0
        while n is not None and guard < 12:
            guard += 1
            if n['k'] == 'DeclRefExpr':
                lk = '%s#%d' % (n.get('name'), n.get('did'))
                if lk in self.alias:
                    return self.alias[lk]
                return n.get('name')
            if n['k'] == 'MemberExpr' and n.get('dk') == 'Field' and (self.fn.strip(n['ch'][0]) or {}).get('k') == 'CXXThisExpr':
                return 'this.' + n.get('name')
            if n['ch']:
                n = self.fn.strip(n['ch'][0])
            else:
                break
        raise AnalysisBroken('R08: state expression not recognised in %s' % self.fn.name)

    alias = {}

    def ex(self, nid, env):
        n = self.fn.nodes.get(nid)
        if n is not None and n['k'] == 'DeclStmt':
            for d in n.get('decls', []):
                if d.get('init') and '*' in (d.get('ty') or '') and 'State' in (d.get('ty') or ''):
                    try:
                        self.alias = dict(self.alias)
                        self.alias['%s#%d' % (d['name'], d['did'])] = self.state_of(d['init'])
                    except AnalysisBroken:
                        pass
        return super().ex(nid, env)

    def load(self, n, env):
        nm = n.get('name') if n['k'] in ('MemberExpr', 'DeclRefExpr') else None
        if n['k'] == 'MemberExpr':
            if nm in ('value', 'position'):
                return self.m['states'][self.state_of(n['ch'][0])]
            if nm in ('values', 'low', 'high', 'bounds_', 'space_', 'rng_', 'sampler_'):
                return ('obj', nm)
            if nm == 'dimension_':
                return 1
            if nm in ('bounded_',):
                return self.m.get('bounded', True)
            if nm in ('minTime_', 'lowerBound_'):
                return self.m['low']
            if nm in ('maxTime_', 'upperBound_'):
                return self.m['high']
        if n['k'] == 'DeclRefExpr':
            if nm == 'pi':
                return Fr(1)
            return ('obj', nm)
        raise AnalysisBroken('R08: %s reads %s' % (self.fn.name, self.fn.fp(n['id'])))

    def elem(self, n):
        """array element expression X[i]: returns (kind, state) """
        base = self.fn.strip(n['ch'][0])
        if base is not None and base['k'] == 'MemberExpr':
            if base.get('name') == 'values':
                return ('val', self.state_of(base['ch'][0]))
            if base.get('name') in ('low', 'high'):
                return (base['name'], None)
        raise AnalysisBroken('R08: array access %s' % self.fn.fp(n['id']))

    def ev(self, nid, env):
        n = self.fn.nodes.get(nid)
        if n is not None:
            k = n['k']
            if k in ('ArraySubscriptExpr',) or n.get('oop') == '[]':
                kind, st = self.elem(n)
                if kind == 'val':
                    return self.m['states'][st]
                return self.m[kind]
            if k == 'FloatingLiteral':
                return Fr(n['v']) if re.match(r'^-?\d+(\.\d+)?$', str(n['v'])) else Fr(float(n['v']))
            if k in ('CXXStaticCastExpr', 'CXXReinterpretCastExpr', 'CStyleCastExpr', 'CXXFunctionalCastExpr') and n['ch']:
                v = self.ev(n['ch'][0], env)
                if 'int' in (n.get('ty') or '') and isinstance(v, Fr):
                    return Fr(math.trunc(v))
                return v
            if k == 'UnaryOperator' and n.get('op') == '-' and n['ch']:
                return -self.ev(n['ch'][0], env)
        return super().ev(nid, env)

    def store(self, lhs, v, env):
        if lhs is None:
            raise AnalysisBroken('R08: store')
        if lhs['k'] == 'MemberExpr' and lhs.get('name') in ('value', 'position'):
            self.m['states'][self.state_of(lhs['ch'][0])] = v
            self.m.setdefault('written', []).append(v)
            return
        if lhs['k'] == 'ArraySubscriptExpr' or lhs.get('oop') == '[]':
            kind, st = self.elem(lhs)
            if kind == 'val':
                self.m['states'][st] = v
                self.m.setdefault('written', []).append(v)
                return
        raise AnalysisBroken('R08: %s writes %s' % (self.fn.name, self.fn.fp(lhs['id'])))

    def binop(self, op, a, b):
        if op == '/' and isinstance(a, (int, Fr)) and isinstance(b, (int, Fr)) and b != 0:
            return Fr(a) / Fr(b)
        return super().binop(op, a, b)

    def call(self, n, env):
        c = n.get('callee', '')
        last = c.split('::')[-1]
        a = args(self.fn, n)
        if last in ('as', 'getBounds', 'getDimension', 'get', 'operator->', 'operator*') or c in ('std::move',):
            if last == 'getDimension':
                return 1
            return ('obj', last)
        if last == 'isBounded':
            return self.m.get('bounded', True)
        if last in ('getMinTimeBound', 'getLowerBound'):
            return self.m['low']
        if last in ('getMaxTimeBound', 'getUpperBound'):
            return self.m['high']
        if last == 'pi' or c.endswith('constants::pi'):
            return Fr(1)
        if last == 'epsilon':
            return EPS
        if last in ('max', 'min') and len(a) == 2:
            x, y = self.ev(a[0], env), self.ev(a[1], env)
            return max(x, y) if last == 'max' else min(x, y)
        if last == 'fmod' and len(a) == 2:
            x, y = Fr(self.ev(a[0], env)), Fr(self.ev(a[1], env))
            q = math.trunc(x / y)
            return x - q * y
        if last == 'floor' and len(a) == 1:
            return Fr(math.floor(self.ev(a[0], env)))
        if last in ('fabs', 'abs') and len(a) == 1:
            return abs(self.ev(a[0], env))
        if last == 'uniformReal' and len(a) == 2:
            lo, hi = Fr(self.ev(a[0], env)), Fr(self.ev(a[1], env))
            if lo > hi:
                self.m['contract'] = 'uniformReal(%s, %s) called with an empty range' % (lo, hi)
                return lo
            ch = self.oracle.pick(3)
            if lo == hi:
                return lo
            return (lo, (lo + hi) / 2, hi - min(EPS, (hi - lo) / 4))[ch]     # [lo, hi): never the upper end point
        if last == 'uniformInt' and len(a) == 2:
            lo, hi = self.ev(a[0], env), self.ev(a[1], env)
            return (lo, hi)[self.oracle.pick(2)]
        if last in ('gaussian', 'gaussian01'):
            for x in a:
                self.ev(x, env)
            return (Fr(-3), Fr(-1), Fr(0), Fr(1, 2), Fr(1), Fr(3), Fr(-11), Fr(11))[self.oracle.pick(8)]   # +-11: overshoot by several widths
        if last == 'uniform01':
            return (Fr(0), Fr(1, 2), Fr(1) - EPS)[self.oracle.pick(3)]
        if last == 'enforceBounds':
            tgt = self.F.one(self.m['space'] + '::enforceBounds')
            st = self.state_of(a[0])
            sub = SpaceInterp(tgt, self.F, self.m, self.oracle)
            sub.alias = {'%s#%d' % (tgt.params[0]['name'], tgt.params[0]['did']): st}
            sub.run()
            return None
        if last in ('OMPL_WARN', 'log') or c.startswith('ompl::msg::'):
            return None
        raise AnalysisBroken('R08: %s calls %s' % (self.fn.name, c))


SCALAR = [
    # sampler class, space class, integer-valued
    (B + 'RealVectorStateSampler', B + 'RealVectorStateSpace', False),
    (B + 'SO2StateSampler', B + 'SO2StateSpace', False),
    (B + 'TimeStateSampler', B + 'TimeStateSpace', False),
    (B + 'DiscreteStateSampler', B + 'DiscreteStateSpace', True),
]


def run_space_fn(F, fn, space, states, bind, oracle=None, low=Fr(-1), high=Fr(1)):
    m = {'states': dict(states), 'space': space, 'low': low, 'high': high}
    it = SpaceInterp(fn, F, m, oracle or Oracle([]))
    it.alias = {'%s#%d' % (p['name'], p['did']): bind[i] for i, p in enumerate(fn.params) if i in bind}
    rv, _ = it.run()
    return rv, m


def r08b(rep, F):
    rep.rule('R08b', 'enforceBounds then satisfiesBounds, both interpreted over exact rationals (bounds -1/1, pi := 1) on every '
                     'multiple of 1/4 in [-5, 5] (every ordering region and every boundary point): the result satisfies the '
                     'bounds, an in-bounds input is not changed, a second application changes nothing')
    for samp, space, integer in SCALAR:
        ef = F.one(space + '::enforceBounds')
        sf = F.one(space + '::satisfiesBounds')
        dom = [Fr(i) for i in range(-5, 6)] if integer else [Fr(i, 4) for i in range(-20, 21)]
        bad = None
        for x in dom:
            _, m1 = run_space_fn(F, ef, space, {'s': x}, {0: 's'})
            y = m1['states']['s']
            ok_y, _ = run_space_fn(F, sf, space, {'s': y}, {0: 's'})
            ok_x, _ = run_space_fn(F, sf, space, {'s': x}, {0: 's'})
            _, m2 = run_space_fn(F, ef, space, {'s': y}, {0: 's'})
            z = m2['states']['s']
            unit = 'pi' if 'SO2' in space else ''
            if not ok_y:
                bad = bad or 'enforceBounds maps %s%s to %s%s, which does not satisfy the bounds' % (x, unit, y, unit)
            if ok_x and y != x:
                bad = bad or 'the in-bounds value %s%s is changed to %s%s' % (x, unit, y, unit)
            if z != y:
                bad = bad or 'not idempotent at %s%s: %s%s then %s%s' % (x, unit, y, unit, z, unit)
        rep.add('R08b', space + '::enforceBounds', 'in-bounds-identity-idempotent', bad is None, ef.loc,
                bad or 'holds on all %d representative points' % len(dom), sample={'points': len(dom)})
    # compound / wrapper forward per component
    fn = F.one(B + 'CompoundStateSpace::enforceBounds')
    r = component_loop(fn, 'enforceBounds')
    rep.add('R08b', fn.name, 'per-component', r[0], fn.loc, r[1])
    fn = F.one(B + 'CompoundStateSpace::satisfiesBounds')
    r = component_loop(fn, 'satisfiesBounds')
    rep.add('R08b', fn.name, 'per-component', r[0], fn.loc, r[1])


def r08a(rep, F):
    rep.rule('R08a', 'sampleUniform / sampleUniformNear / sampleGaussian of the scalar samplers, executed abstractly with every '
                     'script of adversarial RNG outcomes (uniformReal in [a,b), uniformInt in [a,b], gaussian in {-11,-3,-1,0,1/2,1,3,11}: inside, on the bounds, beyond them by one and by several widths) '
                     'and every in-bounds near/mean value and distance in {0, 1/2, 3}: the produced state satisfies the '
                     'space\'s satisfiesBounds')
    for samp, space, integer in SCALAR:
        sf = F.one(space + '::satisfiesBounds')
        near_dom = [Fr(-1), Fr(0), Fr(1)] if integer else [Fr(-1), Fr(-1, 2), Fr(0), Fr(3, 4), Fr(1) - EPS]
        for meth in ('sampleUniform', 'sampleUniformNear', 'sampleGaussian'):
            fn = F.one(samp + '::' + meth)
            bad = None
            runs = 0
            for near in (near_dom if len(fn.params) > 1 else [None]):
                for dist in ([Fr(0), Fr(1, 2), Fr(3)] if len(fn.params) > 2 else [None]):
                    for script in itertools.product(range(8), repeat=2):
                        runs += 1
                        orc = Oracle(script)
                        m = {'states': {'out': Fr(0), 'near': near}, 'space': space, 'low': Fr(-1), 'high': Fr(1)}
                        it = SpaceInterp(fn, F, m, orc)
                        it.alias = {'%s#%d' % (fn.params[0]['name'], fn.params[0]['did']): 'out'}
                        env = {}
                        if len(fn.params) > 1:
                            it.alias['%s#%d' % (fn.params[1]['name'], fn.params[1]['did'])] = 'near'
                        if len(fn.params) > 2:
                            env['%s#%d' % (fn.params[2]['name'], fn.params[2]['did'])] = dist
                        it.run(env)
                        if m.get('contract'):
                            bad = bad or m['contract']
                        ok, _ = run_space_fn(F, sf, space, {'s': m['states']['out']}, {0: 's'})
                        if not ok:
                            bad = bad or 'with near/mean %s, distance %s and RNG script %s the sampler produces %s, outside the bounds' % (
                                near, dist, script[:orc.i], m['states']['out'])
                        if orc.i == 0 and not bad:
                            raise AnalysisBroken('R08a: %s draws nothing' % fn.name)
            rep.add('R08a', fn.name, 'in-bounds-under-adversarial-rng', bad is None, fn.loc,
                    bad or 'in bounds on all %d abstract runs' % runs, sample={'runs': runs})
    rep.undecided('R08a', B + 'SO3StateSampler', 'unit-norm', 'quaternion arithmetic: not decided')


# ---------------------------------------------------------------------------------------------------------------
ISVALID = (B + 'SpaceInformation::isValid', B + 'StateValidityChecker::isValid')
COPY = (B + 'SpaceInformation::copyState', B + 'StateSpace::copyState')


class ValidClient(paths.Client):
    """auto = frozenset((state key, status)); status: 'D' dirty, ('P', call id) pending verdict, 'V' valid, 'I' invalid"""
    fork_bools = True
    track = 'vars'

    def __init__(self, fn):
        self.out = self.skey(fn, fn.params[0])
        self.exits = []
        self.pairs = {}
        for ds in [n for n in fn.walk() if n['k'] == 'DeclStmt']:
            for d in ds.get('decls', []):
                if 'std::pair' in (d.get('ty') or '') and d.get('init'):
                    ini = fn.strip(d['init'])
                    if ini is not None and ini['ch']:
                        s = self.state_key(fn, ini['ch'][0])
                        if s:
                            self.pairs['%s#%d' % (d['name'], d['did'])] = s

    @staticmethod
    def skey(fn, p):
        return '%s#%d' % (p['name'], p['did'])

    def state_key(self, fn, nid):
        n = fn.strip(nid)
        if n is None:
            return None
        if n['k'] == 'DeclRefExpr':
            return '%s#%d' % (n.get('name'), n.get('did'))
        if n['k'] == 'MemberExpr' and n.get('dk') == 'Field' and (fn.strip(n['ch'][0]) or {}).get('k') == 'CXXThisExpr':
            return 'this.' + n.get('name')
        return None

    def init(self, fn):
        return frozenset({(self.out, 'D')})

    @staticmethod
    def setst(auto, k, st):
        return frozenset([x for x in auto if x[0] != k] + [(k, st)])

    @staticmethod
    def getst(auto, k):
        for x in auto:
            if x[0] == k:
                return x[1]
        return 'D'

    def on_node(self, fn, node, auto, ctx):
        c = node.get('callee')
        if c is None:
            return auto
        a = args(fn, node)
        if c in ISVALID and a:
            s = self.state_key(fn, a[0])
            if s:
                return self.setst(auto, s, ('P', node['id']))
            return auto
        if c in COPY and len(a) == 2:
            d, s = self.state_key(fn, a[0]), self.state_key(fn, a[1])
            if d and s:
                st = self.getst(auto, s)
                return self.setst(auto, d, st if st in ('V', 'I') else 'D')
        if c == B + 'SpaceInformation::checkMotion' and len(a) == 3:
            pk = key(fn, a[2])
            if pk in self.pairs:
                if self.getst(auto, self.state_key(fn, a[0])) == 'V':
                    # MotionValidator contract (checked by C05/R05b): afterwards lastValid.first holds a valid state
                    return self.setst(auto, self.pairs[pk], 'V')
                return self.setst(auto, self.pairs[pk], 'D')
        for i in node.get('wargs') or []:
            if i < len(a):
                s = self.state_key(fn, a[i])
                if s and ('State' in (fn.nodes[a[i]].get('ty') or '')):
                    auto = self.setst(auto, s, 'D')
        return auto

    def learn(self, fn, node, value, auto, ctx):
        if node.get('callee') in ISVALID:
            for (k, st) in auto:
                if st == ('P', node['id']):
                    return self.setst(auto, k, 'V' if value else 'I')
        return auto

    def at_exit(self, fn, ret, auto, ctx):
        rv = ctx.eval(ret['ch'][0]) if ret is not None and ret['ch'] else None
        self.exits.append((self.getst(auto, self.out), rv, ctx.path()))


def r08c(rep, F):
    rep.rule('R08c', 'valid-state samplers (uniform, Gaussian, obstacle-based, bridge-test, maximize-/minimum-clearance, '
                     'constrained) x sample / sampleNear: typestate of each state variable (dirty after any call that may '
                     'write it, pending after isValid, valid / invalid once the verdict is known, transferred by copyState, '
                     'valid after a 3-argument checkMotion from a valid state by the MotionValidator contract); a result that '
                     'may be true requires the output state to be valid. Verdict variables are forked at their assignment, so '
                     'conditions over several of them (v1 != v2) are decided exactly')
    names = ['Uniform', 'Gaussian', 'ObstacleBased', 'BridgeTest', 'MaximizeClearance', 'MinimumClearance', 'Constrained']
    n = 0
    for nm in names:
        for meth in ('sample', 'sampleNear'):
            fs = F.by_name.get(B + nm + 'ValidStateSampler::' + meth, [])
            if not fs:
                raise AnalysisBroken('R08c: %sValidStateSampler::%s vanished' % (nm, meth))
            fn = fs[0]
            n += 1
            cl = ValidClient(fn)
            paths.run_function(fn, cl, F)
            bad = [(st, rv, p) for (st, rv, p) in cl.exits if rv is not False and st != 'V']
            rep.add('R08c', fn.name, 'true-implies-valid-output', not bad, fn.loc,
                    'a path returns %s while the output state is %s' % ('true' if bad[0][1] else 'a possibly true result',
                                                                       {'D': 'unchecked since its last write', 'I': 'known invalid'}.get(bad[0][0], 'unchecked'))
                    if bad else 'every path that may return true leaves a validated output state (%d exit states)' % len(cl.exits),
                    bad[0][2] if bad else None)
    rep.require_count('R08c', 'valid-state sampler methods', n, 14)


def r08d(rep, F):
    rep.rule('R08d', 'delegation: CompoundStateSampler calls sampler i on component i of every state argument for all '
                     'components; WrapperStateSampler forwards unwrapped states in order; SubspaceStateSampler samples a scratch '
                     'state of the subspace and copies the selected substates; no call of sampleUniformNear / sampleGaussian '
                     'in the analysed units passes the same state as output and as near / mean (implementations such as SO(3) '
                     'are not alias safe)')
    for meth in ('sampleUniform', 'sampleUniformNear', 'sampleGaussian'):
        fn = F.one(B + 'CompoundStateSampler::' + meth)
        fors = [x for x in fn.walk() if x['k'] == 'ForStmt']
        ok, why = False, 'no loop over the component samplers'
        if fors:
            from engine.shape import for_loop
            idx, start, cond, stride = for_loop(fn, fors[0])
            calls = [c for c in fn.walk(fors[0]['body']) if (c.get('callee') or '').startswith(B + 'StateSampler::sample')]
            if start != {1: 0} or stride != 1 or cond is None or nofp(str(dict(cond[1]))).find('samplerCount_') < 0:
                why = 'the loop does not cover samplers 0 .. samplerCount_-1'
            elif not calls or not any(c['callee'].endswith('::' + meth) for c in calls):
                why = 'loop body does not call the component sampler\'s %s' % meth
            else:
                from engine.shape import origin
                why = None
                i = nofp(idx)
                sparams = [pkey(fn, j) for j, p in enumerate(fn.params) if 'State' in p['ty']]
                for c in calls:
                    a = args(fn, c)
                    obj = nofp(fn.fp(c['ch'][0]))
                    if 'samplers_' not in obj or ',%s)' % i not in obj:
                        why = 'the called sampler is not samplers_[i]'
                    pos = 0
                    for x in a:
                        if 'State' not in (fn.nodes[x].get('ty') or ''):
                            continue
                        o, path = origin(fn, x)
                        if o != sparams[pos]:
                            why = 'state argument %d derives from %s, not from the parameter in that position' % (pos, o)
                        elif '[%s]' % idx not in path:
                            why = 'state argument %d is not component [i]' % pos
                        pos += 1
                ok = why is None
        rep.add('R08d', fn.name, 'per-component', ok, fn.loc, 'samplers_[i] on component i of every state, all components' if ok else why)
    for f in F.functions:
        if f.record != B + 'WrapperStateSampler' or f.name.split('::')[-1] not in ('sampleUniform', 'sampleUniformNear', 'sampleGaussian'):
            continue
        meth = f.name.split('::')[-1]
        calls = [c for c in f.walk() if c.get('callee') == B + 'StateSampler::' + meth]
        why = None
        if len(calls) != 1:
            why = 'does not forward to the wrapped sampler'
        else:
            a = args(f, calls[0])
            for j, p in enumerate(f.params):
                afp = nofp(f.fp(a[j]))
                if p['name'] not in afp:
                    why = 'argument %d does not derive from %s' % (j, p['name'])
                elif 'State' in p['ty'] and 'getState' not in afp:
                    why = 'state argument %d forwarded without unwrapping' % j
        rep.add('R08d', f.name, 'forwards-unwrapped', why is None, f.loc, why or 'forwards unwrapped states in order')
    n = 0
    for f in F.functions:
        for c in f.walk():
            if c.get('callee') in (B + 'StateSampler::sampleUniformNear', B + 'StateSampler::sampleGaussian'):
                a = args(f, c)
                n += 1
                same = nofp(f.fp(a[0])) == nofp(f.fp(a[1]))
                if same:
                    rep.add('R08d', f.name, 'no-alias:%s#%d' % (c['callee'].split('::')[-1], n), False, f.where(c),
                            'the same state %s is passed as output and as near/mean: samplers that read the mean after writing '
                            'the output (SO(3) quaternion product) produce out-of-bounds states' % nofp(f.fp(a[0])))
    rep.add('R08d', 'all analysed units', 'no-aliased-sampler-call', True, '', '%d near/Gaussian sampler call sites inspected' % n, nontrivial=False)
    rep.require_count('R08d', 'near/Gaussian sampler call sites', n, 15)
    # subspace sampler: scratch state, then copy of the selected substates
    for meth in ('sampleUniform', 'sampleUniformNear', 'sampleGaussian'):
        f = F.one(B + 'SubspaceStateSampler::' + meth)
        calls = [c for c in f.walk() if c.get('callee') == B + 'StateSampler::' + meth]
        cp = [c for c in f.walk() if c.get('callee', '').endswith('copyStateData')]
        why = None
        if len(calls) != 1:
            why = 'does not sample through the subspace sampler'
        elif 'work_' not in nofp(f.fp(args(f, calls[0])[0])):
            why = 'the subspace sampler does not write the scratch state'
        elif not cp or f.line(cp[-1]) < f.line(calls[0]):
            why = 'the sampled substates are not copied into the output after sampling'
        else:
            last = args(f, cp[-1])
            if f.params[0]['name'] not in nofp(f.fp(last[1])) or 'work_' not in nofp(f.fp(last[3])):
                why = 'the final copy is not from the scratch state into the output'
        rep.add('R08d', f.name, 'scratch-then-copy', why is None, f.loc, why or 'samples the scratch state, then copies the selected substates to the output')


def r08e(rep, F):
    rep.rule('R08e', 'SO3StateSpace::enforceBounds in algebraic normal form, path by path: the final quaternion is either exactly the '
                     'identity (0, 0, 0, 1) or a uniform scaling of the *input* (all four components multiplied by one common factor: '
                     'the cross products out.c * in.d - out.d * in.c vanish identically); the path taken for a (nearly) zero norm ends '
                     'in the identity, and on the path that divides by the norm the squared norm of the result normalises to 1.  The '
                     'numerical quality of the near-unit approximation is not decided')
    from engine import sym
    f = [x for x in F.by_name.get(B + 'SO3StateSpace::enforceBounds', []) if x.body]
    if not f:
        raise AnalysisBroken('R08e: SO3StateSpace::enforceBounds vanished')
    f = f[0]
    ctx = sym.Ctx(inline=sym.resolver(F, deny=()))
    m = sym.Machine(F, ctx)
    m.split = 'all'
    Q = ('S', 'Q')
    st = {'env': {f.params[0]['did']: Q}, 'heap': [], 'alias': {}, 'this': ('T',), 'facts': []}
    try:
        r = m.block(f, [f.body], st)
        lv = sym.leaves(r, st)
    except sym.Unsupported as e:
        raise AnalysisBroken('R08e: outside the fragment: %s' % e)
    comps = 'xyzw'
    inp = {c: sym.Poly.atom(('rd', ('F', Q, c))) for c in comps}
    nrm = inp['x'] * inp['x'] + inp['y'] * inp['y'] + inp['z'] * inp['z'] + inp['w'] * inp['w']
    n = 0
    ident = 0
    for facts_, st_, r_ in lv:
        out = {c: m.read(('F', Q, c), st_) for c in comps}
        n += 1
        role = 'path#%d' % n
        is_id = all(sym._same(out[c], sym.Poly.const(1 if c == 'w' else 0)) for c in comps)
        if is_id:
            ident += 1
            rep.add('R08e', f.name, role, True, f.where(f.nodes[f.body]), 'ends in the identity quaternion')
            continue
        cross = [(c, d) for i, c in enumerate(comps) for d in comps[i + 1:] if not sym._same(out[c] * inp[d], out[d] * inp[c])]
        if cross:
            rep.add('R08e', f.name, role, False, f.where(f.nodes[f.body]),
                    'the result (%s) is neither the identity nor a uniform scaling of the input: e.g. a component written by '
                    'setIdentity() is rescaled afterwards with a factor computed from the old norm'
                    % ', '.join('%s = %s' % (c, sym.show(out[c])[:60]) for c in comps))
            continue
        # small-norm path must not be a scaling path
        small = [x for x in facts_ if isinstance(x, tuple) and x and x[0] == 'lt0' and sym._same(sym.from_key(x[1]) - nrm, sym.from_key(x[1]) - nrm)
                 and not sym.from_key(x[1]).mentions(lambda a: isinstance(a, tuple) and a and a[0] == 'app')
                 and (sym.from_key(x[1]) - nrm).is_const() and (sym.from_key(x[1]) - nrm).cval() < 0]
        if small:
            rep.add('R08e', f.name, role, False, f.where(f.nodes[f.body]),
                    'on the path taken for a squared norm below %s the input is rescaled instead of replaced by the identity'
                    % (-(sym.from_key(small[0][1]) - nrm).cval()))
            continue
        rep.add('R08e', f.name, role, True, f.where(f.nodes[f.body]), 'uniform scaling of the input: out = s * in with s = %s'
                % sym.show(out['w'])[:80].replace('*Q.w', ''))
    if ident < 1:
        rep.add('R08e', f.name, 'degenerate-input', False, f.where(f.nodes[f.body]),
                'no path ends in the identity: a zero quaternion cannot be normalised by scaling')
    rep.require_count('R08e', 'paths of SO3StateSpace::enforceBounds', n, 3)


def r08f(rep, F):
    rep.rule('R08f', 'RNG::quaternion yields a unit quaternion identically: the four stored components, in algebraic normal form over '
                     'fresh atoms for the random draws, have squares that sum to 1 after sqrt(q)^2 -> q and cos^2 -> 1 - sin^2; every '
                     'component is written exactly once.  (The SO(3) samplers store what this routine produces; C08 needs unit norm)')
    from engine import sym
    f = [x for x in F.by_name.get('ompl::RNG::quaternion', []) if x.body]
    if not f:
        raise AnalysisBroken('R08f: RNG::quaternion vanished')
    f = f[0]
    ctx = sym.Ctx(inline=sym.resolver(F, deny=()))
    m = sym.Machine(F, ctx)
    m.split = False
    V = ('S', 'V')
    st = {'env': {f.params[0]['did']: V}, 'heap': [], 'alias': {}, 'this': ('T',), 'facts': []}
    try:
        m.block(f, [f.body], st)
    except sym.Unsupported as e:
        raise AnalysisBroken('R08f: outside the fragment: %s' % e)
    comps = {}
    for k, v, q in st['heap']:
        if isinstance(k, tuple) and k and k[0] == 'I' and k[1] == V and q is None:
            comps.setdefault(repr(k[2]), []).append(v)
    tot = sym.Poly()
    for vs in comps.values():
        tot = tot + vs[-1] * vs[-1]
    nrm = sym.pythagoras(tot)
    ok = len(comps) == 4 and sym._same(nrm, sym.Poly.const(1))
    rep.add('R08f', f.name, 'unit-norm-identity', ok, f.loc, 'x^2 + y^2 + z^2 + w^2 normalises to 1' if ok else
            ('%d components are written, not 4' % len(comps) if len(comps) != 4 else
             'the squared norm normalises to %s, not 1: the sampled rotation is not a unit quaternion' % sym.show(nrm)[:160]))


def r08g(rep, F):
    rep.rule('R08g', 'ranges of the RNG primitives the samplers clamp with, interpreted over exact rationals (draw u in {0, 1/7, 1/2, 6/7, '
                     '999/1000}; bounds (-2,3), (0,0), (1,5), (-4,-4), (0,1)): uniformReal(lo, hi) lies in [lo, hi) (equal to lo when lo = '
                     'hi); uniformInt(lo, hi) is an integer in [lo, hi] and reaches both ends (u = 0 gives lo, u = 999/1000 gives hi); '
                     'uniform01 is the draw itself')
    from engine import obj
    import math
    RN = 'ompl::RNG::'

    def run(name, u, *av):
        fs = [g for g in F.by_name.get(RN + name, []) if g.body and len(g.params) == len(av)]
        if not fs:
            raise AnalysisBroken('R08g: RNG::%s vanished' % name)

        def call(it, n, env):
            c = n.get('callee') or ''
            if '_distribution::operator()' in c:
                return u
            if c in ('floor', 'std::floor'):
                return math.floor(it.ev(n['ch'][-1], env))
            return NotImplemented
        it = obj.ObjInterp(F, fs[0], this=obj.Ref(uniDist_=('dist',), generator_=('gen',), normalDist_=('dist',)), hooks={'call': call})
        r, _ = it.run({'%s#%d' % (p_['name'], p_['did']): v for p_, v in zip(fs[0].params, av)})
        return r
    us = [Fr(0), Fr(1, 7), Fr(1, 2), Fr(6, 7), Fr(999, 1000)]
    bad = None
    n = 0
    for lo, hi in ((Fr(-2), Fr(3)), (Fr(0), Fr(0)), (Fr(1), Fr(5)), (Fr(-4), Fr(-4)), (Fr(0), Fr(1))):
        for u in us:
            r = run('uniformReal', u, lo, hi)
            n += 1
            if not (lo <= r and (r < hi or (lo == hi and r == lo))) and bad is None:
                bad = 'uniformReal(%s, %s) with draw %s gives %s' % (lo, hi, u, r)
    rep.add('R08g', RN + 'uniformReal', 'within-half-open-range', bad is None, '', bad or 'in [lo, hi) on %d abstract points' % n)
    bad = None
    n = 0
    for lo, hi in ((-2, 3), (0, 0), (1, 5), (-4, -4), (0, 1)):
        seen = set()
        for u in us:
            r = run('uniformInt', u, lo, hi)
            n += 1
            seen.add(r)
            if not (isinstance(r, int) and lo <= r <= hi) and bad is None:
                bad = 'uniformInt(%d, %d) with draw %s gives %s' % (lo, hi, u, r)
        if bad is None and not ({lo, hi} <= seen):
            bad = 'uniformInt(%d, %d) never returns %s' % (lo, hi, sorted({lo, hi} - seen))
    rep.add('R08g', RN + 'uniformInt', 'within-closed-range-both-ends-reached', bad is None, '', bad or 'integer in [lo, hi], both ends reached, on %d abstract points' % n)
    bad = None
    for u in us:
        if run('uniform01', u) != u:
            bad = 'uniform01 does not return the draw'
    rep.add('R08g', RN + 'uniform01', 'is-the-draw', bad is None, '', bad or 'returns the draw')


def run(rep):
    F = facts.load_units(UNITS)
    rep.units.update(UNITS)
    rep.functions.update(f.key for f in F.functions if f.record and ('Sampler' in f.record or 'StateSpace' in f.record))
    r08b(rep, F)
    r08a(rep, F)
    r08c(rep, F)
    r08d(rep, F)
    r08e(rep, F)
    r08f(rep, F)
    r08g(rep, F)
