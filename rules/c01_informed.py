"""C01, informed-trees family (BIT*, ABIT*, AIT*, EIT*): edge admission and EIT*'s multi-resolution edge check.

R01p forward-tree links of BIT* / AIT* / EIT* are created only on CFG paths on which the validity verdict of *that* edge was
     positive (a successful motion check of the edge's two states in parent -> child order, or membership in the
     whitelist, which is itself only filled under such a verdict); the verdict helpers return what they checked; the
     motion validator a planner caches is refreshed by setup()
R01q EIT*'s multi-resolution edge check, decided by interpreting isValidAtResolution / isValid / couldBeValid and the
     level-up statements over a finite domain (segment counts 1..40, every initial level the setter admits out of 0..8,
     every sub-sequence of sparse levels followed by the full-resolution check, validity oracle all-valid or one invalid
     point): when an edge is whitelisted, the union of the positions that were really tested leaves no gap longer than
     two resolution lengths; an invalid tested point blacklists the edge and nothing is whitelisted
"""
import itertools
from fractions import Fraction

import re
from engine import facts, paths, fd
from engine.facts import AnalysisBroken
from engine.shape import key, args, local_defs
from rules import planners as P
from rules.planners import B

G = 'ompl::geometric::'


def _fn(F, name, file_contains='informedtrees'):
    fs = [f for f in F.by_name.get(name, []) if file_contains in f.file and f.body]
    if not fs:
        raise AnalysisBroken('anchor function vanished: ' + name)
    return fs[0]


def _calls(f, suffixes):
    return [n for n in f.walk() if n.get('callee') and n['callee'].endswith(tuple(suffixes))]


def _recv(f, call):
    """fingerprint of the object a member call is made on, looking through shared_ptr::operator->"""
    if call['k'] != 'CXXMemberCallExpr' or not call['ch']:
        return None
    n = f.strip(call['ch'][0])
    while n is not None and n['k'] == 'CXXOperatorCallExpr' and n.get('oop') in ('->', '*') and n['ch']:
        n = f.strip(n['ch'][0 if len(n['ch']) == 1 else 0])
        if n is not None and n['k'] == 'DeclRefExpr' and n.get('name') in ('operator->', 'operator*'):
            break
    if n is None:
        return None
    return f.fp(n['id'])


def _obj(f, nid):
    """fingerprint of an argument, looking through shared_ptr::operator-> and accessor calls state()/getState()/raw()"""
    n = f.strip(nid)
    for _ in range(6):
        if n is None:
            return None
        if n['k'] == 'CXXMemberCallExpr' and n.get('callee', '').split('::')[-1] in ('state', 'getState', 'raw') and n['ch']:
            n = f.strip(n['ch'][0])
            continue
        if n['k'] == 'CXXOperatorCallExpr' and n.get('oop') in ('->', '*') and n['ch']:
            n = f.strip(n['ch'][-1] if len(n['ch']) == 1 else n['ch'][0])
            if n is not None and n['k'] in ('DeclRefExpr',) and n.get('name', '').startswith('operator'):
                return None
            continue
        break
    return f.fp(n['id']) if n is not None else None


def _first_obj(f, call):
    """object fingerprint of the receiver of a member call made through a shared pointer: X->m(...) -> fp(X)"""
    if call['k'] != 'CXXMemberCallExpr' or not call['ch']:
        return None
    return _obj(f, call['ch'][0])


def _var(f, nid):
    """the local / parameter an argument expression denotes, looking through the implicit conversions (pair of shared_ptr to
    pair of shared_ptr-to-const) that wrap it"""
    k = key(f, nid)
    if k:
        return k
    vs = ['%s#%d' % (x.get('name'), x.get('did')) for x in f.walk(nid) if x['k'] == 'DeclRefExpr' and x.get('dk') in ('Local', 'Parm')]
    return vs[0] if len(set(vs)) == 1 else None


def _dominated(F, f, sites, true_callees, wrappers):
    cl = P.MotionGuard(f, lambda fn, node, sites=sites: node['id'] if node.get('id') in sites else None,
                       wrappers=wrappers, extra_true=tuple(true_callees))
    paths.run_function(f, cl, F)
    return cl


def r01p(rep, F):
    rep.rule('R01p', 'informed trees (BIT*, AIT*, EIT*): every forward-tree link (addEdge / addParent+addChild / setForwardParent+'
                     'addToForwardChildren / updateParent+addChild on forward vertices) and every whitelist insertion is reached only '
                     'on CFG paths on which the verdict for *that same edge* was positive -- checkEdge / isValid returned true, or '
                     'checkMotion(parent state, child state) succeeded, or the edge was already whitelisted; the arguments of the check, '
                     'of the whitelist query, of the whitelist insertion and of the link all name the same (parent, child) pair in the '
                     'same orientation; the verdict helpers return exactly the whitelist test or the motion check of the edge they were '
                     'given; a motion validator cached in a member is re-read by setup()')
    n = 0
    W = P.check_wrappers(F)

    # ---------------- BIT*
    it = _fn(F, G + 'BITstar::iterate')
    chk = G + 'BITstar::checkEdge'
    sites = {c['id']: c for c in it.walk() if c.get('callee') in (G + 'BITstar::addEdge', G + 'BITstar::whitelistEdge')}
    checks = [c for c in it.walk() if c.get('callee') == chk]
    if not sites or not checks:
        raise AnalysisBroken('R01p: BITstar::iterate no longer calls checkEdge / addEdge / whitelistEdge')
    cl = _dominated(F, it, sites, [chk], W)
    ck = {_var(it, args(it, c)[0]) for c in checks}
    for sid, c in sorted(sites.items()):
        role = c['callee'].split('::')[-1]
        g = cl.at.get(sid)
        n += 1
        same = _var(it, args(it, c)[0]) in ck and len(ck) == 1 and None not in ck
        rep.add('R01p', it.name, 'BIT*:%s-after-checkEdge' % role, bool(g) and same, it.where(sid),
                'dominated by checkEdge(edge) == true on the same edge' if g and same else
                ('%s is reached on a path on which checkEdge did not succeed' % role if not g else
                 '%s is given %s but checkEdge judged %s' % (role, _var(it, args(it, c)[0]), sorted(map(str, ck)))), cl.paths_.get(sid))
    ce = _fn(F, chk)
    e0 = '%s#%d' % (ce.params[0]['name'], ce.params[0]['did'])
    wl = G + 'BITstar::Vertex::isWhitelistedAsChild'
    rets = {r['id']: r for r in ce.walk() if r['k'] == 'ReturnStmt' and r['ch']}
    cl = _dominated(F, ce, rets, [wl], W)
    for rid, r in sorted(rets.items()):
        e = ce.strip(r['ch'][0])
        n += 1
        if e is not None and e.get('callee') in P.CHECK_CALLEES:
            a = args(ce, e)
            got = [_obj(ce, x) for x in a[:2]]
            ok = got == [e0 + '.first', e0 + '.second']
            rep.add('R01p', ce.name, 'BIT*:checkEdge-returns-check', ok, ce.where(rid),
                    'returns checkMotion(edge.first, edge.second)' if ok else 'returns the motion check of %s, not of (edge.first, edge.second)' % got)
        elif e is not None and e['k'] == 'CXXBoolLiteralExpr' and e['v'] is False:
            rep.add('R01p', ce.name, 'BIT*:checkEdge-returns-check', True, ce.where(rid), 'returns false')
        elif e is not None and e['k'] == 'CXXBoolLiteralExpr' and e['v'] is True:
            q = [c for c in ce.walk() if c.get('callee') == wl]
            okq = bool(q) and all(_first_obj(ce, c) == e0 + '.first' and _obj(ce, args(ce, c)[0]) == e0 + '.second' for c in q)
            g = cl.at.get(rid)
            rep.add('R01p', ce.name, 'BIT*:checkEdge-true-only-if-whitelisted', bool(g) and okq, ce.where(rid),
                    'true is returned without a check only under edge.first->isWhitelistedAsChild(edge.second)' if g and okq else
                    'true is returned without a motion check on a path on which the edge is not known to be whitelisted', cl.paths_.get(rid))
        else:
            rep.add('R01p', ce.name, 'BIT*:checkEdge-returns-check', False, ce.where(rid),
                    'checkEdge returns %s: neither the whitelist test nor the motion check of its edge' % ce.fp(r['ch'][0])[:120])
    we = _fn(F, G + 'BITstar::whitelistEdge')
    w0 = '%s#%d' % (we.params[0]['name'], we.params[0]['did'])
    ins = [c for c in we.walk() if c.get('callee') == G + 'BITstar::Vertex::whitelistChild']
    n += 1
    ok = len(ins) == 1 and _first_obj(we, ins[0]) == w0 + '.first' and _obj(we, args(we, ins[0])[0]) == w0 + '.second'
    rep.add('R01p', we.name, 'BIT*:whitelist-orientation', ok, we.where(we.nodes[we.body]),
            'edge.first->whitelistChild(edge.second): the orientation checkEdge queries' if ok else
            'the whitelist is filled in a different orientation than checkEdge queries it')
    who = sorted({f.name for f in F.functions for c in f.walk() if c.get('callee') == G + 'BITstar::Vertex::whitelistChild'})
    n += 1
    rep.add('R01p', G + 'BITstar::Vertex::whitelistChild', 'BIT*:who-may-whitelist', who == [we.name], we.where(we.nodes[we.body]),
            'only BITstar::whitelistEdge fills the whitelist' if who == [we.name] else 'the whitelist is also filled by %s' % who)
    for hn in (G + 'BITstar::addEdge', G + 'BITstar::replaceParent'):
        h = _fn(F, hn)
        h0 = '%s#%d' % (h.params[0]['name'], h.params[0]['did'])
        ap = [c for c in h.walk() if c.get('callee') == G + 'BITstar::Vertex::addParent']
        ac = [c for c in h.walk() if c.get('callee') == G + 'BITstar::Vertex::addChild']
        n += 1
        ok = bool(ap) and bool(ac) and all(_first_obj(h, c) == h0 + '.second' and _obj(h, args(h, c)[0]) == h0 + '.first' for c in ap) and \
            all(_first_obj(h, c) == h0 + '.first' and _obj(h, args(h, c)[0]) == h0 + '.second' for c in ac)
        rep.add('R01p', hn, 'BIT*:link-orientation', ok, h.where(h.nodes[h.body]),
                'edge.second gets parent edge.first and edge.first gets child edge.second' if ok else
                'the link does not join (edge.first -> edge.second), the pair that was checked')

    # ---------------- AIT*
    fs = _fn(F, G + 'AITstar::iterateForwardSearch')
    V = G + 'aitstar::Vertex::'
    link = {c['id']: c for c in fs.walk() if c.get('callee') in (V + 'setForwardParent', V + 'addToForwardChildren', V + 'whitelistAsChild')}
    mcs = [c for c in fs.walk() if c.get('callee') in P.CHECK_CALLEES]
    wq = [c for c in fs.walk() if c.get('callee') == V + 'isWhitelistedAsChild']
    if len(link) < 3 or not mcs:
        raise AnalysisBroken('R01p: AITstar::iterateForwardSearch: link / check sites not found')
    pc = {(_obj(fs, args(fs, c)[0]), _obj(fs, args(fs, c)[1])) for c in mcs}
    cl = _dominated(F, fs, link, [V + 'isWhitelistedAsChild'], W)
    for sid, c in sorted(link.items()):
        role = c['callee'].split('::')[-1]
        g = cl.at.get(sid)
        n += 1
        if role == 'setForwardParent':
            pair = (_obj(fs, args(fs, c)[0]), _first_obj(fs, c))
        else:
            pair = (_first_obj(fs, c), _obj(fs, args(fs, c)[0]))
        same = pc == {pair} and all((_first_obj(fs, q), _obj(fs, args(fs, q)[0])) == pair for q in wq)
        rep.add('R01p', fs.name, 'AIT*:%s-after-verdict' % role, bool(g) and same, fs.where(sid),
                'dominated by (whitelisted || checkMotion(parent, child)) for the same pair' if g and same else
                ('%s is reached on a path without a positive verdict' % role if not g else
                 '%s joins %s but the check / whitelist query is about %s' % (role, pair, sorted(pc))), cl.paths_.get(sid))
    for nm in ('setForwardParent', 'whitelistAsChild'):
        who = sorted({f.name for f in F.functions for c in f.walk() if c.get('callee') == V + nm})
        n += 1
        rep.add('R01p', V + nm, 'AIT*:who-may-link', who == [fs.name], fs.where(fs.nodes[fs.body]),
                'called only from iterateForwardSearch' if who == [fs.name] else 'also called from %s, which this rule does not guard' % who)

    # ---------------- EIT*
    fs = _fn(F, G + 'EITstar::iterateForwardSearch')
    EV = G + 'eitstar::Vertex::'
    iv = G + 'EITstar::isValid'
    fwd = {}
    for d in [x for x in fs.walk() if x['k'] == 'DeclStmt']:
        for dd in d.get('decls', []):
            if dd.get('init'):
                for c in fs.walk(dd['init']):
                    if c.get('callee') == G + 'eitstar::State::asForwardVertex':
                        fwd['%s#%d' % (dd['name'], dd['did'])] = _first_obj(fs, c)
    link = {}
    for c in fs.walk():
        if c.get('callee') in (EV + 'updateParent', EV + 'addChild'):
            if _first_obj(fs, c) in fwd:
                link[c['id']] = c
    ivs = [c for c in fs.walk() if c.get('callee') == iv]
    if len(link) < 2 or not ivs:
        raise AnalysisBroken('R01p: EITstar::iterateForwardSearch: forward link / isValid sites not found')
    ek = {_var(fs, args(fs, c)[0]) for c in ivs}
    cl = _dominated(F, fs, link, [iv], W)
    for sid, c in sorted(link.items()):
        role = c['callee'].split('::')[-1]
        g = cl.at.get(sid)
        n += 1
        a, b = fwd.get(_first_obj(fs, c)), fwd.get(_obj(fs, args(fs, c)[0]))
        e = list(ek)[0] if len(ek) == 1 else None
        want = (e + '.target', e + '.source') if role == 'updateParent' else (e + '.source', e + '.target')
        same = e is not None and (a, b) == want
        rep.add('R01p', fs.name, 'EIT*:%s-after-isValid' % role, bool(g) and same, fs.where(sid),
                'dominated by isValid(edge) == true; links edge.source -> edge.target' if g and same else
                ('%s is reached on a path on which isValid(edge) did not succeed' % role if not g else
                 '%s joins %s, not the edge isValid judged' % (role, (a, b))), cl.paths_.get(sid))
    # validators cached in members are refreshed by setup()
    for cls in ('AITstar', 'EITstar', 'BITstar'):
        rec = F.record(G + cls, required=False)
        if not rec:
            continue
        for fld in rec['fields']:
            if 'MotionValidator' not in (fld.get('ty') or ''):
                continue
            used = [f2.name for f2 in F.functions if f2.name.startswith(G + cls + '::') for c in f2.walk()
                    if c.get('callee') in P.CHECK_CALLEES and ('this.' + fld['name']) in f2.fp(c['ch'][0])]
            if not used:
                continue        # a cached validator nobody checks motions with decides nothing
            su = _fn(F, G + cls + '::setup')
            wr = [x for x in su.walk() if x['k'] in ('BinaryOperator', 'CXXOperatorCallExpr') and (x.get('op') == '=' or x.get('oop') == '=') and
                  su.fp(x['ch'][0] if x['k'] == 'BinaryOperator' else x['ch'][-2] if len(x['ch']) > 2 else x['ch'][0]).endswith('this.' + fld['name'])]
            if not wr:
                wr = [x for x in su.walk() if (x.get('oop') == '=' or x.get('op') == '=') and ('this.' + fld['name']) in su.fp(x['id']) and
                      'getMotionValidator' in su.fp(x['id'])]
            n += 1
            rep.add('R01p', su.name, '%s:validator-refreshed[%s]' % (cls, fld['name']), bool(wr), su.where(su.nodes[su.body]),
                    'setup() re-reads the motion validator from the space information' if wr else
                    '%s caches a motion validator in %s but setup() does not re-read it: a validator installed after construction is '
                    'ignored and edges are admitted by another validator than the one the path is judged by' % (cls, fld['name']))
    rep.require_count('R01p', 'informed-tree admission obligations', n, 16)


# ---------------------------------------------------------------------------------------------------------------------
# R01q: EIT*'s multi-resolution check by finite-domain interpretation

class Blacklisted(Exception):
    pass


class EdgeModel:
    """abstract edge state shared by the interpreted calls"""

    def __init__(self, full, invalid=None):
        self.full = full
        self.white = set()
        self.black = set()
        self.res = {}
        self.tested = set()           # positions (fractions of the motion source -> target) handed to isValid
        self.invalid = invalid        # a position that the oracle reports invalid (None: everything valid)
        self.det = None
        self.fields = {}


class Eit(fd.Interp):
    max_steps = 400000

    def __init__(self, F, fn, model, argvals):
        super().__init__(fn)
        self.F = F
        self.m = model
        self.env0 = {}
        for p, v in zip(fn.params, argvals):
            self.env0['%s#%d' % (p['name'], p['did'])] = v

    # values: ('edge',) ; ('st','source'|'target') ; ('raw', st) ; ints ; Fractions ; lists (queues) ; tuples (pairs)
    def load(self, n, env):
        fn = self.fn
        if n['k'] == 'MemberExpr':
            base = fn.strip(n['ch'][0]) if n['ch'] else None
            nm = n.get('name')
            if base is None or base['k'] == 'CXXThisExpr':
                if nm in self.m.fields:
                    return self.m.fields[nm]
                return ('this', nm)
            bv = self.ev(base['id'], env)
            if bv == ('edge',) and nm in ('source', 'target'):
                return ('st', nm)
            if isinstance(bv, tuple) and len(bv) == 3 and bv[0] == 'pair' and nm in ('first', 'second'):
                return bv[1] if nm == 'first' else bv[2]
        raise AnalysisBroken('R01q: read of %s outside the fragment in %s' % (fn.fp(n['id']), fn.name))

    def store(self, lhs, value, env):
        fn = self.fn
        if lhs is not None and lhs['k'] == 'MemberExpr':
            base = fn.strip(lhs['ch'][0]) if lhs['ch'] else None
            if base is None or base['k'] == 'CXXThisExpr':
                self.m.fields[lhs.get('name')] = value
                return
        raise AnalysisBroken('R01q: store outside the fragment in %s' % fn.name)

    def ev(self, nid, env):
        n = self.fn.nodes.get(nid)
        if n is not None and n['k'] == 'BinaryOperator' and n.get('op') == '/':
            a, b = self.ev(n['ch'][0], env), self.ev(n['ch'][1], env)
            ty = n.get('ty') or ''
            if 'double' in ty or 'float' in ty:
                if b == 0:
                    raise AnalysisBroken('R01q: division by zero while interpreting ' + self.fn.name)
                return Fraction(a) / Fraction(b)
            if b == 0:
                raise AnalysisBroken('R01q: division by zero while interpreting ' + self.fn.name)
            return int(a) // int(b)
        if n is not None and n['k'] == 'CXXConstructExpr' and len(n['ch']) == 0:
            return []          # default-constructed container
        if n is not None and n['k'] == 'UnaryOperator' and n.get('op') in ('++', '--'):
            t = self.fn.strip(n['ch'][0])
            if t is not None and t['k'] == 'MemberExpr':
                old = self.m.fields.get(t.get('name'), 0)
                old = old if isinstance(old, int) else 0
                self.m.fields[t.get('name')] = old + (1 if n['op'] == '++' else -1)
                return old
        return super().ev(nid, env)

    def call(self, n, env):
        fn = self.fn
        c = n['callee']
        short = c.split('::')[-1]
        a = args(fn, n) if n['k'] == 'CXXMemberCallExpr' else n['ch']
        if n['k'] == 'CXXOperatorCallExpr' and n.get('oop') in ('->', '*'):
            return self.ev(n['ch'][-1] if len(n['ch']) == 1 else n['ch'][0], env) if fn.nodes[n['ch'][0]]['k'] != 'DeclRefExpr' or \
                not (fn.nodes[n['ch'][0]].get('name') or '').startswith('operator') else self.ev(n['ch'][1], env)
        recv = self.ev(n['ch'][0], env) if n['k'] == 'CXXMemberCallExpr' and n['ch'] else None
        m = self.m
        if c.startswith(G + 'eitstar::State::'):
            if short == 'raw':
                return ('raw', recv)
            av = [self.ev(x, env) for x in a]
            if short == 'isWhitelisted':
                return (recv, av[0]) in m.white
            if short == 'isBlacklisted':
                return (recv, av[0]) in m.black
            if short == 'whitelist':
                m.white.add((recv, av[0]))
                return None
            if short == 'blacklist':
                m.black.add((recv, av[0]))
                return None
            if short == 'getIncomingCollisionCheckResolution':
                return m.res.get((recv, av[0]), 0)
            if short == 'setIncomingCollisionCheckResolution':
                m.res[(recv, av[0])] = av[1]
                return None
        if c == B + 'StateSpace::validSegmentCount':
            av = [self.ev(x, env) for x in a]
            if sorted(map(repr, av)) != sorted(map(repr, [('raw', ('st', 'source')), ('raw', ('st', 'target'))])):
                raise AnalysisBroken('R01q: validSegmentCount of %s, not of the edge\'s end states' % (av,))
            return m.full
        if c == 'std::min':
            av = [self.ev(x, env) for x in a]
            return min(av)
        if c == 'std::max':
            av = [self.ev(x, env) for x in a]
            return max(av)
        if c.startswith('std::queue::'):
            q = recv
            if short in ('emplace', 'push'):
                av = [self.ev(x, env) for x in a]
                q.append(('pair', av[0], av[1]) if len(av) == 2 else av[0])
                return None
            if short == 'front':
                return q[0]
            if short == 'pop':
                q.pop(0)
                return None
            if short == 'empty':
                return not q
            if short == 'size':
                return len(q)
        if c == B + 'StateSpace::interpolate':
            av = [self.ev(x, env) for x in a]
            t = Fraction(av[2])
            if av[0] == ('raw', ('st', 'source')) and av[1] == ('raw', ('st', 'target')):
                pos = t
            elif av[0] == ('raw', ('st', 'target')) and av[1] == ('raw', ('st', 'source')):
                pos = 1 - t
            else:
                raise AnalysisBroken('R01q: interpolation between %s, not between the edge\'s end states' % (av[:2],))
            m.det = (av[3], pos)
            return None
        if c in (B + 'SpaceInformation::isValid', B + 'StateValidityChecker::isValid'):
            av = [self.ev(x, env) for x in a]
            if m.det is None or av[0] != m.det[0]:
                raise AnalysisBroken('R01q: the state given to isValid is not the state that was just interpolated')
            m.tested.add(m.det[1])
            return not (m.invalid is not None and m.det[1] == m.invalid)
        if c in (G + 'EITstar::isValidAtResolution',):
            av = [self.ev(x, env) for x in a]
            sub = Eit(self.F, _fn(self.F, c), m, av)
            r, _ = sub.run(dict(sub.env0))
            return r
        if short in ('registerInvalidEdge', 'registerWhitelistedState'):
            return None
        raise AnalysisBroken('R01q: call %s outside the fragment in %s' % (c, fn.name))

    def ex(self, nid, env):
        n = self.fn.nodes.get(nid)
        if n is not None and n['k'] == 'DeclStmt':
            for d in n.get('decls', []):
                if not d.get('init') and 'queue' in (d.get('ty') or ''):
                    env['%s#%d' % (d['name'], d['did'])] = []
                    return
        if n is not None and n.get('mac') and n['k'] not in ('ReturnStmt', 'IfStmt', 'CompoundStmt', 'DeclStmt'):
            return      # assert macros
        return super().ex(nid, env)


def _run(F, name, model, argvals):
    f = _fn(F, name)
    it = Eit(F, f, model, argvals)
    r, _ = it.run(dict(it.env0))
    return r


def _level_ups(F):
    """functions of EITstar that assign numSparseCollisionChecksCurrentLevel_, classified by their right-hand side"""
    CUR = 'numSparseCollisionChecksCurrentLevel_'
    resets, setters, ups = [], [], []
    for f in F.functions:
        if not f.name.startswith(G + 'EITstar::') or 'informedtrees' not in f.file:
            continue
        for x in f.walk():
            if x['k'] == 'BinaryOperator' and x.get('op') == '=' and f.fp(x['ch'][0]) == 'this.' + CUR:
                rhs = f.strip(x['ch'][1])
                fp = f.fp(x['ch'][1])
                mentions = {y.get('dk') for y in f.walk(x['ch'][1]) if y['k'] == 'DeclRefExpr'}
                if fp == 'this.initialNumSparseCollisionChecks_':
                    resets.append((f, x))
                elif mentions & {'Parm', 'Local'}:
                    if f.name not in [g.name for g, _ in setters]:
                        setters.append((f, x))          # configuration entry point: the value derives from an argument
                elif 'this.numSparseCollisionChecks' in fp:
                    ups.append((f, x))
                else:
                    raise AnalysisBroken('R01q: unrecognised assignment to the sparse-check level in ' + f.name)
    return resets, setters, ups


def _apply_block(F, f, assign, fields):
    """interpret the run of plain field assignments that ends with `assign` in its enclosing block"""
    blk = f.nodes[f.parent[assign['id']]]
    while blk['k'] != 'CompoundStmt':
        blk = f.nodes[f.parent[blk['id']]]
    m = EdgeModel(1)
    m.fields = dict(fields)
    it = Eit(F, f, m, [])
    env = {}
    for s in blk['ch']:
        x = f.strip(s)
        if x is not None and x['k'] == 'BinaryOperator' and x.get('op') == '=' and f.fp(x['ch'][0]).startswith('this.numSparse'):
            it.ev(x['id'], env)
        if x is not None and x['id'] == assign['id']:
            break
    return m.fields


def _setter_domain(F, setters, lo=0, hi=8):
    """initial levels a caller can configure: interpret each setter (a function that copies a parameter into the level
    fields, possibly after validating / rounding it) on 0..8 and collect the stored initial values"""
    out = {}
    for f, x in setters:
        for v in range(lo, hi + 1):
            m = EdgeModel(1)
            m.fields = {'initialNumSparseCollisionChecks_': 1, 'numSparseCollisionChecksCurrentLevel_': 1,
                        'numSparseCollisionChecksPreviousLevel_': 0}
            it = Eit(F, f, m, [v])
            try:
                it.run(dict(it.env0))
            except AnalysisBroken:
                raise
            out.setdefault(m.fields['numSparseCollisionChecksCurrentLevel_'], []).append((f.name, v))
    return out


class _Warn(Exception):
    pass


def _history_ok(F, full, levels, invalid=None):
    """one edge, sparse checks at the given levels in order, then the full-resolution check; returns (message or None, gap)"""
    m = EdgeModel(full, invalid)
    edge = ('edge',)
    alive = True
    for lv in levels:
        m.fields['numSparseCollisionChecksCurrentLevel_'] = lv
        alive = _run(F, G + 'EITstar::couldBeValid', m, [edge])
        if not alive:
            break
    if alive:
        alive = _run(F, G + 'EITstar::isValid', m, [edge])
    white = (('st', 'source'), ('st', 'target')) in m.white or (('st', 'target'), ('st', 'source')) in m.white
    if invalid is not None:
        if invalid in m.tested and (alive or white):
            return 'the tested point %s of the motion is invalid but the edge is %s' % (invalid, 'whitelisted' if white else 'accepted'), 0
        if invalid in m.tested and not ((('st', 'source'), ('st', 'target')) in m.black and (('st', 'target'), ('st', 'source')) in m.black):
            return 'an invalid tested point does not blacklist the edge in both directions', 0
        return None, 0
    if not alive:
        return 'an edge whose every tested point is valid is rejected', 0
    if alive and not white:
        return 'isValid() accepts the edge without whitelisting it (levels %s, %d segments)' % (levels, full), 0
    pts = [Fraction(0)] + sorted(p for p in m.tested if 0 <= p <= 1) + [Fraction(1)]
    gap = max(b - a for a, b in zip(pts, pts[1:])) * full
    return None, gap


def r01q(rep, F):
    rep.rule('R01q', 'EIT* multi-resolution edge checking, by interpreting EITstar::isValidAtResolution, isValid, couldBeValid, the '
                     'level-up statements and the setter of the initial level over a finite domain (the ASTs are interpreted on small '
                     'integers; states, the validity oracle and the edge\'s white/black lists are abstract): for every segment count '
                     '1..40, every initial level, every sub-sequence of up to three sparse levels followed by the full-resolution check, '
                     'an edge that ends up whitelisted has been tested at positions that leave no gap longer than two resolution '
                     'lengths (the bound the property states); an invalid tested point blacklists the edge in both directions and '
                     'nothing is accepted or whitelisted')
    f = _fn(F, G + 'EITstar::isValidAtResolution')
    resets, setters, ups = _level_ups(F)
    if not resets or not ups:
        raise AnalysisBroken('R01q: level reset / level-up statements of EIT* not found')
    rec = F.record(G + 'EITstar')
    # default initial level: the value the constructor leaves in initialNumSparseCollisionChecks_
    default = None
    for fld in rec['fields']:
        if fld['name'] == 'initialNumSparseCollisionChecks_' and fld.get('init') is not None:
            default = fld.get('init')
    if default is None:
        default = _default_from_header(F)
    up_f, up_x = ups[0]

    def next_level(lv):
        fields = _apply_block(F, up_f, up_x, {'numSparseCollisionChecksCurrentLevel_': lv, 'numSparseCollisionChecksPreviousLevel_': 0,
                                              'initialNumSparseCollisionChecks_': lv})
        return fields['numSparseCollisionChecksCurrentLevel_']

    def decide(n0, fulls):
        worst, arg, msg = Fraction(0), None, None
        runs = 0
        for full in fulls:
            levels = [n0]
            while levels[-1] < 2 * full and len(levels) < 8:
                nl = next_level(levels[-1])
                if nl <= levels[-1]:
                    return 'the level-up does not increase the number of sparse checks (%d -> %d)' % (levels[-1], nl), worst, arg, runs
                levels.append(nl)
            for r in range(0, maxsub):
                for sub in itertools.combinations(levels, r):
                    runs += 1
                    mm, gap = _history_ok(F, full, list(sub))
                    if mm and msg is None:
                        msg = mm
                    if gap > worst:
                        worst, arg = gap, (full, list(sub))
        return msg, worst, arg, runs

    # thorough tier: a wider domain (segment counts up to 96, sub-sequences of up to four sparse levels)
    deep = getattr(rep, 'tier', 'quick') == 'thorough'
    fulls = list(range(1, 97 if deep else 41))
    maxsub = 5 if deep else 4
    total = 0
    # (1) default configuration
    msg, worst, arg, runs = decide(default, fulls)
    total += runs
    ok = msg is None and worst <= 2
    rep.add('R01q', f.name, 'coverage[default initial level %d]' % default, ok, f.where(f.nodes[f.body]),
            ('whitelisted edges were tested with gaps of at most %s resolution lengths on %d histories' % (float(worst), runs)) if ok else
            (msg or 'with %d segments and sparse checks at levels %s before the full-resolution check the edge is whitelisted although a '
                    'stretch of %.2f resolution lengths was never tested' % (arg[0], arg[1], float(worst))),
            sample={'default_level': default, 'worst_gap': float(worst), 'at': arg, 'histories': runs})
    # (2) an invalid tested point is fatal
    bad = None
    runs2 = 0
    for full in (2, 3, 5, 8, 13, 20):
        lv1 = default
        lv2 = next_level(lv1)
        for hist in ([], [lv1], [lv1, lv2]):
            m0 = EdgeModel(full)
            # discover which points this history tests, then invalidate each in turn
            _h, _g = _history_ok(F, full, hist)
            mprobe = EdgeModel(full)
            for lv in hist:
                mprobe.fields['numSparseCollisionChecksCurrentLevel_'] = lv
                _run(F, G + 'EITstar::couldBeValid', mprobe, [('edge',)])
            _run(F, G + 'EITstar::isValid', mprobe, [('edge',)])
            for p in sorted(mprobe.tested):
                runs2 += 1
                mm, _ = _history_ok(F, full, hist, invalid=p)
                if mm and bad is None:
                    bad = '%s (segments %d, levels %s)' % (mm, full, hist)
    total += runs2
    rep.add('R01q', f.name, 'invalid-point-blacklists', bad is None, f.where(f.nodes[f.body]),
            bad or 'on %d runs with one invalid tested point the edge is rejected, blacklisted both ways and never whitelisted' % runs2)
    # (3) every initial level a caller can configure
    dom = _setter_domain(F, setters)
    for lv in sorted(dom):
        if lv == default:
            continue
        msg, worst, arg, runs = decide(lv, fulls)
        total += runs
        ok = msg is None and worst <= 2
        sf = dom[lv][0][0]
        sfn = _fn(F, sf)
        rep.add('R01q', sf, 'coverage[configured initial level %d]' % lv, ok, sfn.where(sfn.nodes[sfn.body]),
                ('whitelisted edges were tested with gaps of at most %s resolution lengths on %d histories' % (float(worst), runs)) if ok else
                (msg or 'an initial level of %d (argument %d) is accepted; with %d segments and sparse checks at levels %s before the '
                        'full-resolution check an edge is whitelisted although a stretch of %.2f resolution lengths was never tested: checks '
                        'are skipped by count, which presumes that the positions of one level are a prefix of the next level\'s'
                 % (lv, dom[lv][0][1], arg[0], arg[1], float(worst))),
                sample={'level': lv, 'worst_gap': float(worst), 'at': arg})
    rep.extra['R01q_histories'] = total
    rep.require_count('R01q', 'interpreted histories', total, 1000)


def _default_from_header(F):
    """the in-class initialiser of initialNumSparseCollisionChecks_ is not part of the record facts: read it from the
    constructor-independent reset statement's source of truth, the member initialiser in the constructor facts"""
    for f in F.by_name.get(G + 'EITstar::EITstar', []):
        for x in f.d.get('inits', []):
            if x.get('field') == 'initialNumSparseCollisionChecks_' or x.get('name') == 'initialNumSparseCollisionChecks_':
                n = f.strip(x['init'])
                while n is not None and n['k'] in ('InitListExpr', 'CXXDefaultInitExpr') and n['ch']:
                    n = f.strip(n['ch'][0])
                if n is not None and n['k'] == 'IntegerLiteral':
                    return int(n['v'])
                if n is not None and n.get('cv') is not None:
                    return int(n['cv'])
    raise AnalysisBroken('R01q: default value of initialNumSparseCollisionChecks_ not found')


# ---------------------------------------------------------------------------------------------------------------------
# R01t: multilevel (bundle-space) planners

ML = 'ompl::multilevel::'
ML_LINK = (ML + 'BundleSpaceGraph::addBundleEdge', ML + 'BundleSpaceGraph::addEdge', 'boost::add_edge')
ML_TRUE = (ML + 'BundleSpaceGraph::checkMotion', ML + 'BundleSpacePropagator::steer', ML + 'PathSection::checkMotion',
           ML + 'BundleSpaceGraph::connect')


class QmpChain(fd.Interp):
    """QMPImpl::expand after randomBounceMotion: configurations are abstract chain positions (-1 = the configuration the walk
    started from, k = the configuration built from randomWorkStates_[k]); records the pairs handed to addEdge"""

    def __init__(self, fn, same):
        super().__init__(fn)
        self.same = same
        self.edges = []

    def load(self, n, env):
        if n['k'] == 'MemberExpr' and n.get('name') == 'index' and n['ch']:
            return self.ev(n['ch'][0], env)          # a configuration's vertex stands for the configuration
        return ('opaque', self.fn.fp(n['id']))

    def store(self, lhs, value, env):
        return

    def ev(self, nid, env):
        n = self.fn.nodes.get(nid)
        if n is not None and n['k'] == 'CXXNewExpr':
            # new Configuration(bundle, randomWorkStates_[k])
            for x in self.fn.walk(nid):
                if x['k'] == 'CXXOperatorCallExpr' and x.get('oop') == '[]' and 'randomWorkStates_' in self.fn.fp(x['ch'][-2]):
                    return {'pos': self.ev(x['ch'][-1], env)}
            return {'pos': None}
        if n is not None and n['k'] in ('CXXConstructExpr', 'CXXTemporaryObjectExpr') and len(n['ch']) != 1:
            return ('opaque', 'object')
        return super().ev(nid, env)

    def call(self, n, env):
        c = n.get('callee') or ''
        a = args(self.fn, n)
        if c.endswith('BundleSpaceGraph::addEdge') or c == 'boost::add_edge':
            x, y = self.ev(a[0], env), self.ev(a[1], env)
            self.edges.append((x.get('pos') if isinstance(x, dict) else None, y.get('pos') if isinstance(y, dict) else None))
            return ('opaque', 'edge')
        if c.endswith('::sameComponent'):
            return self.same
        if n['k'] == 'CXXOperatorCallExpr' and n.get('oop') == '[]':
            return ('opaque', 'elem')
        for x in a:
            try:
                self.ev(x, env)
            except AnalysisBroken:
                pass
        return ('opaque', c)


def r01t(rep, F):
    rep.rule('R01t', 'multilevel (bundle-space) planners: every graph edge (addBundleEdge / addEdge / boost::add_edge in the multilevel '
                     'units) is created on CFG paths dominated by a positive motion verdict -- BundleSpaceGraph::checkMotion, the '
                     'propagator\'s steer, PathSection::checkMotion, connect, SpaceInformation::checkMotion (3-argument form: validated '
                     'prefix) -- locally or at every call site of the helper that contains it; the geometric propagator\'s steer returns '
                     'the verdict of checkMotion(from, result); BundleSpaceGraph::checkMotion is the bundle\'s motion check of the two '
                     'configurations\' states in order; QMPImpl::expand turns the walk validated by randomBounceMotion into edges between '
                     'consecutive walk states only (interpreted over abstract chain positions, walk lengths 1..4, both sameComponent '
                     'answers)')
    n = 0
    W = set(P.check_wrappers(F))
    fns = [f for f in F.functions if f.body and '/multilevel/' in f.file and f.file.endswith('.cpp')]
    pending = {}
    for f in fns:
        sites = {c['id']: c for c in f.walk() if c.get('callee') in ML_LINK}
        if not sites:
            continue
        if f.name.endswith('::getPlannerData'):
            continue
        cl = _dominated(F, f, sites, ML_TRUE, W)
        for sid, c in sorted(sites.items()):
            g = cl.at.get(sid)
            if g is None:
                continue
            role = '%s@%d' % (c['callee'].split('::')[-1], len([1 for o in rep.obl if o['rule'] == 'R01t' and o['function'] == f.name]))
            if g:
                n += 1
                rep.add('R01t', f.name, role, True, f.where(sid), 'dominated by a positive motion verdict')
            else:
                pending.setdefault(f.name, []).append((role, f, sid, cl.paths_.get(sid)))
    for hname, lst in sorted(pending.items()):
        if hname == ML + 'QMPImpl::expand':
            continue                                     # decided below by interpretation
        callers = []
        for f in fns:
            calls = {c['id']: c for c in f.walk() if c.get('callee') == hname}
            if not calls or f.name == hname:
                continue
            cl = _dominated(F, f, calls, ML_TRUE, W)
            for cid, c in calls.items():
                g = cl.at.get(cid)
                if g is None:
                    continue
                callers.append((f, c, bool(g)))
        for (role, hf, sid, path) in lst:
            if not callers:
                called = any(c.get('callee') == hname for f in F.functions for c in f.walk())
                if not called:
                    rep.undecided('R01t', hname, role, 'the function has no call site in the library (dead code): an edge it would add is never added')
                    continue
            n += 1
            unguarded = [(f, c) for (f, c, ok) in callers if not ok and f.name not in pending]
            via_helpers = [(f, c) for (f, c, ok) in callers if not ok and f.name in pending]
            ok = bool(callers) and not unguarded
            rep.add('R01t', hname, role, ok, hf.where(sid),
                    'helper: %d call site(s) dominated by a positive motion verdict%s' % (
                        len([1 for (_, _, o) in callers if o]),
                        ', %d inside helpers that are discharged at their own call sites' % len(via_helpers) if via_helpers else '') if ok else
                    'an edge is added without a positive motion verdict: neither locally nor at the call site %s' % (
                        unguarded[0][0].where(unguarded[0][1]) if unguarded else '(none found)'), path)
    # the verdict helpers themselves
    for sf in [f for f in F.functions if f.name.endswith('::steer') and f.name.startswith(ML) and f.body]:
        n += 1
        rets = [r for r in sf.walk() if r['k'] == 'ReturnStmt' and r['ch']]
        ok = bool(rets)
        why = ''
        for r in rets:
            e = sf.strip(r['ch'][0])
            src_ = e
            if e is not None and e['k'] == 'DeclRefExpr' and e.get('dk') == 'Local':
                k_ = '%s#%d' % (e['name'], e['did'])
                defs = [d['init'] for x in sf.walk() if x['k'] == 'DeclStmt' for d in x.get('decls', []) if '%s#%d' % (d['name'], d['did']) == k_ and d.get('init')]
                writes = [x for x in sf.walk() if x['k'] in ('BinaryOperator', 'CompoundAssignOperator') and x.get('op') in ('=', '|=', '&=') and key(sf, x['ch'][0]) == k_]
                src_ = sf.strip(defs[0]) if len(defs) == 1 and not writes else None
            if src_ is None or src_.get('callee') != ML + 'BundleSpaceGraph::checkMotion':
                ok = False
                why = 'steer returns %s, not the verdict of checkMotion' % sf.fp(r['ch'][0])[:80]
            else:
                a = args(sf, src_)
                p0, p2 = '%s#%d' % (sf.params[0]['name'], sf.params[0]['did']), '%s#%d' % (sf.params[2]['name'], sf.params[2]['did'])
                if [key(sf, x) for x in a[:2]] != [p0, p2]:
                    ok = False
                    why = 'steer checks the motion %s, not from -> result' % [sf.fp(x) for x in a[:2]]
        rep.add('R01t', sf.name, 'steer-returns-check', ok, sf.loc, 'returns checkMotion(from, result)' if ok else why)
    cm = _fn(F, ML + 'BundleSpaceGraph::checkMotion', file_contains='multilevel')
    n += 1
    rets = [r for r in cm.walk() if r['k'] == 'ReturnStmt' and r['ch']]
    ok = len(rets) == 1
    if ok:
        e = cm.strip(rets[0]['ch'][0])
        p0, p1 = '%s#%d' % (cm.params[0]['name'], cm.params[0]['did']), '%s#%d' % (cm.params[1]['name'], cm.params[1]['did'])
        ok = e is not None and e.get('callee') in P.CHECK_CALLEES and [cm.fp(x) for x in args(cm, e)[:2]] == [p0 + '.state', p1 + '.state']
    rep.add('R01t', cm.name, 'graph-check-is-bundle-check', ok, cm.loc, 'returns getBundle()->checkMotion(a->state, b->state)' if ok else
            'BundleSpaceGraph::checkMotion does not return the bundle\'s motion check of (a->state, b->state)')
    # QMP's walk expansion
    ex = _fn(F, ML + 'QMPImpl::expand', file_contains='multilevel')
    sdecl = qkey = None
    for x in ex.walk():
        if x['k'] == 'DeclStmt':
            for d in x.get('decls', []):
                ini = ex.strip(d['init']) if d.get('init') else None
                if ini is not None and (ini.get('callee') or '').endswith('::randomBounceMotion'):
                    sdecl = d
                    st = ex.strip(args(ex, ini)[1])
                    if st is not None and st['k'] == 'MemberExpr' and st.get('name') == 'state' and st['ch']:
                        qkey = key(ex, st['ch'][0])
    blk = None
    if sdecl is not None:
        skey = '%s#%d' % (sdecl['name'], sdecl['did'])
        for x in ex.walk():
            if x['k'] == 'IfStmt' and key(ex, (ex.strip(x['cond']) or {'ch': [0]})['ch'][0]) == skey:
                blk = x
    if sdecl is None or qkey is None or blk is None:
        raise AnalysisBroken('R01t: the randomBounceMotion block of QMPImpl::expand was not recognised')
    bad = None
    runs = 0
    for s in (1, 2, 3, 4):
        for same in (True, False):
            it = QmpChain(ex, same)
            env = {skey: s, qkey: {'pos': -1}}
            try:
                it.ex(blk['id'], env)
            except fd.Return:
                pass
            runs += 1
            want = [(k - 1, k) for k in range(0, s)]
            ok = sorted(it.edges) == sorted(want) or (same and sorted(it.edges) == sorted(want[:-1]))
            if not ok and bad is None:
                bad = 'for a walk of %d state(s) (sameComponent = %s) the edges join chain positions %s; the validated steps are %s' % (s, same, it.edges, want)
    n += 1
    rep.add('R01t', ex.name, 'walk-edges-consecutive', bad is None, ex.where(blk), bad or 'edges equal the validated steps on %d abstract runs' % runs)
    rep.require_count('R01t', 'multilevel admission obligations', n, 10)


# ---------------------------------------------------------------------------------------------------------------------
# R01u: the goal classes the planners ask

class GoalInterp(fd.Interp):
    """goal predicates over abstract distances: si_->distance(st, g) answers from a table keyed by the goal state; states_ is a
    list of abstract goal states; *distance is an out-cell"""

    def __init__(self, fn, model):
        super().__init__(fn)
        self.m = model

    def load(self, n, env):
        if n['k'] == 'MemberExpr':
            nm = n.get('name')
            if nm in self.m:
                return self.m[nm]
            return ('this', nm)
        raise AnalysisBroken('R01u: read of %s in %s' % (self.fn.fp(n['id']), self.fn.name))

    def store(self, lhs, v, env):
        if lhs is not None and lhs['k'] == 'UnaryOperator' and lhs.get('op') == '*':
            cell = self.ev(lhs['ch'][0], env)
            if isinstance(cell, dict):
                cell['v'] = v
                return
        if lhs is not None and lhs['k'] == 'MemberExpr' and lhs.get('name') in self.m:
            self.m[lhs['name']] = v
            return
        raise AnalysisBroken('R01u: store in %s' % self.fn.name)

    def ev(self, nid, env):
        n = self.fn.nodes.get(nid)
        if n is not None and n['k'] == 'BinaryOperator' and n.get('op') in ('==', '!='):
            a, b = self.ev(n['ch'][0], env), self.ev(n['ch'][1], env)
            if isinstance(a, dict) or isinstance(b, dict) or a is None or b is None:
                same = (a is b) or (a is None and b is None)
                return same if n['op'] == '==' else not same
        if n is not None and n['k'] == 'CXXForRangeStmt':
            return None
        return super().ev(nid, env)

    def ex(self, nid, env):
        n = self.fn.nodes.get(nid)
        if n is not None and n['k'] == 'CXXForRangeStmt':
            rng = None
            for x in self.fn.walk(n.get('range') or n['ch'][0]):
                if x['k'] == 'MemberExpr' and x.get('name') in self.m and isinstance(self.m[x['name']], list):
                    rng = self.m[x['name']]
            var = self.fn.nodes[n['var']]['decls'][0]
            if rng is None:
                raise AnalysisBroken('R01u: range of the loop in %s not recognised' % self.fn.name)
            for item in list(rng):
                env['%s#%d' % (var['name'], var['did'])] = item
                try:
                    self.ex(n['body'], env)
                except fd.Break:
                    break
                except fd.Continue:
                    continue
            return
        return super().ex(nid, env)

    def call(self, n, env):
        c = n.get('callee') or ''
        a = args(self.fn, n) if n['k'] == 'CXXMemberCallExpr' else n['ch']
        if n['k'] == 'CXXOperatorCallExpr' and n.get('oop') in ('->', '*'):
            return self.ev(n['ch'][-1], env)
        if c.endswith('::distance') and len(a) == 2:
            x, y = self.ev(a[0], env), self.ev(a[1], env)
            if x == ('st',) and isinstance(y, tuple) and y[0] == 'goal':
                return self.m['dist'][y[1]]
            raise AnalysisBroken('R01u: distance between %s and %s' % (x, y))
        if c.endswith('::distanceGoal'):
            x = self.ev(a[0], env)
            if x != ('st',):
                raise AnalysisBroken('R01u: distanceGoal of %s' % (x,))
            return self.m['d2g']
        if c.endswith('::isSatisfied') and len(a) == 2:
            sub = GoalInterp(self.m['two'], self.m)
            av = [self.ev(x, env) for x in a]
            e2 = {'%s#%d' % (p['name'], p['did']): v for p, v in zip(self.m['two'].params, av)}
            r, _ = sub.run(e2)
            return r
        if c in ('std::min', 'std::max', 'std::fmin', 'std::fmax', 'fmin', 'fmax'):
            av = [self.ev(x, env) for x in a]
            return min(av) if 'min' in c else max(av)
        if c.endswith('numeric_limits::infinity'):
            return float('inf')
        if c.endswith('numeric_limits::max'):
            return float('1e308')
        raise AnalysisBroken('R01u: call %s in %s' % (c, self.fn.name))


def r01y(rep, F, rule='R01y'):
    rep.rule(rule, 'what is attached to a registered path describes THAT path: where a solution is built from the path to a vertex '
                   '(PlannerSolution s(getPathToVertex(X)) / getPathToState(X)), the goal difference given to setApproximate and the cost given to '
                   'setOptimized are functions of X alone -- a local computed from X, or a member that the same block has just assigned, '
                   'unconditionally, from an expression in X.  A member incumbent that is only conditionally refreshed, or folded with its '
                   'own old value (betterCost(incumbent, cost of X)), belongs to an earlier vertex: the registered path then carries the '
                   'difference / cost of another path')
    n = 0
    CONFIG = ('objective_', 'opt_', 'name_', 'pdef_', 'spaceInfo_', 'si_')
    for f in F.functions:
        if not f.body or not f.file.endswith('.cpp') or '/informedtrees/' not in f.file:
            continue
        for ds in [x for x in f.walk() if x['k'] == 'DeclStmt']:
            for d in ds.get('decls', []):
                if 'PlannerSolution' not in (d.get('ty') or '') or not d.get('init'):
                    continue
                src_calls = [c for c in f.walk(d['init']) if (c.get('callee') or '').split('::')[-1] in ('getPathToVertex', 'getPathToState')]
                if not src_calls:
                    continue
                X = key(f, args(f, src_calls[0])[0])
                if X is None:
                    continue
                skey = '%s#%d' % (d['name'], d['did'])
                blk = next((a for a in f.ancestors(ds['id']) if a['k'] == 'CompoundStmt'), None)
                defs = local_defs(f)

                def impure(nid, depth=0, seen=()):
                    """first leaf that is not a function of X (None if pure)"""
                    for x in f.walk(nid):
                        if x['k'] == 'DeclRefExpr' and x.get('dk') in ('Local', 'Parm'):
                            k = '%s#%d' % (x['name'], x['did'])
                            if k == X or k in seen:
                                continue
                            dd = defs.get(k, [])
                            if len(dd) == 1 and depth < 4:
                                r = impure(dd[0], depth + 1, seen + (k,))
                                if r:
                                    return r
                                continue
                            return 'local %s' % x['name']
                        if x['k'] == 'MemberExpr' and x.get('dk') == 'Field' and x['ch'] and (f.strip(x['ch'][0]) or {}).get('k') == 'CXXThisExpr':
                            m = x['name']
                            if m in CONFIG:
                                continue
                            # a member is acceptable if the enclosing block assigns it unconditionally, before this use, from a pure expression
                            asg = [y for y in (f.strip(c) for c in (blk['ch'] if blk else [])) if y and y['k'] in ('BinaryOperator', 'CXXOperatorCallExpr')
                                   and (y.get('op') == '=' or y.get('oop') == '=') and (f.strip(y['ch'][0]) or {}).get('name') == m and f.line(y) <= f.line(x)]
                            if asg and depth < 4 and m not in seen:
                                r = impure(asg[-1]['ch'][-1], depth + 1, seen + (m,))
                                if r:
                                    return r
                                continue
                            return 'member %s%s' % (m, ' (folded with its own old value)' if m in seen else
                                                    ' (not assigned unconditionally from the vertex in this block)')
                    return None
                for c in f.walk(blk['id']) if blk else []:
                    cal = (c.get('callee') or '').split('::')[-1]
                    if cal not in ('setApproximate', 'setOptimized') or c['k'] != 'CXXMemberCallExpr' or key(f, c['ch'][0]) != skey:
                        continue
                    a = args(f, c)
                    e = a[0] if cal == 'setApproximate' else (a[1] if len(a) > 1 else None)
                    if e is None:
                        continue
                    n += 1
                    bad = impure(e)
                    k = len([1 for o in rep.obl if o['rule'] == rule and o['function'] == f.name])
                    rep.add(rule, f.name, 'describes-its-path:%s#%d' % (cal, k), bad is None, f.where(c),
                            'the value handed to %s is a function of the vertex whose path is registered' % cal if bad is None else
                            'the value handed to %s depends on %s, not only on %s, the vertex whose path is being registered' %
                            (cal, bad, X.split('#')[0]))
    rep.require_count(rule, 'values attached to solutions built from a vertex path', n, 6)


def r01z(rep, F, rule='R01z'):
    rep.rule(rule, 'fiber coordinate j of the R^N -> R^M projection is bundle coordinate j + M in every routine that relates the two (projectFiber, '
                   'lift, computeFiberSpace): the difference between the bundle-side index and the fiber-side index of each paired access is, in '
                   'linear normal form with locals resolved, exactly getBaseDimension().  Fiber bounds read at another offset give the fiber '
                   'sampler the bounds of the wrong coordinates: with anisotropic bounds, vertices are created outside the planning space and '
                   'end up on reported paths')
    from engine import lin
    fns = [f for f in F.functions if f.body and (f.record or '').endswith('Projection_RN_RM') and f.name.split('::')[-1] in ('projectFiber', 'lift', 'computeFiberSpace')]
    if len(fns) < 3:
        raise AnalysisBroken('R01z: Projection_RN_RM::{projectFiber, lift, computeFiberSpace} not all found')
    n = 0
    for f in fns:
        env = lin.local_env(f)
        for lp in [x for x in f.walk() if x['k'] == 'ForStmt' and x.get('body')]:
            fib, bun = [], []
            for x in f.walk(lp['body']):
                idx = None
                if x['k'] == 'ArraySubscriptExpr':
                    base, idx = f.fp(x['ch'][0]), x['ch'][1]
                elif (x.get('callee') or '').endswith('vector::at') or (x['k'] == 'CXXOperatorCallExpr' and x.get('oop') == '[]'):
                    base, idx = f.fp(x['ch'][0]), (args(f, x)[0] if x['k'] == 'CXXMemberCallExpr' else x['ch'][1])
                elif (x.get('callee') or '').split('::')[-1] in ('setLow', 'setHigh') and x['k'] == 'CXXMemberCallExpr':
                    base, idx = f.fp(x['ch'][0]), args(f, x)[0]
                if idx is None:
                    continue
                v = lin.lin(f, idx, env)
                if v is None:
                    continue
                if re.search(r'Fiber', base):
                    fib.append(v)
                elif re.search(r'Bundle', base):
                    bun.append(v)
            if not fib or not bun:
                continue
            n += 1
            d = dict(bun[0])
            for k_, c_ in fib[0].items():
                d[k_] = d.get(k_, 0) - c_
            d = {k_: c_ for k_, c_ in d.items() if c_ != 0}
            ok = len(d) == 1 and list(d.values())[0] == 1 and 'getBaseDimension' in str(list(d.keys())[0])
            k = len([1 for o in rep.obl if o['rule'] == rule and o['function'] == f.name])
            rep.add(rule, f.name, 'fiber-offset#%d' % k, ok, f.where(lp),
                    'bundle index = fiber index + getBaseDimension()' if ok else
                    'bundle index - fiber index = %s, not getBaseDimension(): the fiber is paired with the wrong bundle coordinates' % lin.show(d))
    rep.require_count(rule, 'paired fiber / bundle accesses', n, 3)


def r01u(rep, F):
    rep.rule('R01u', 'the goal classes answer what the planners record (interpreted over abstract distances): GoalRegion::isSatisfied(st, '
                     '&d) is true exactly when distanceGoal(st) is below the threshold (the boundary itself is not decided) and stores that '
                     'same distance in *d whenever d is given, whatever the verdict; the one-argument form gives the same verdict; '
                     'GoalState::distanceGoal is the distance from the tested state to the goal state; GoalStates::distanceGoal is the '
                     'minimum over every stored goal state (all orders of three distinct distances, and the empty set)')
    Bg = B
    n = 0
    two = [f for f in F.by_name.get(Bg + 'GoalRegion::isSatisfied', []) if f.body and len(f.params) == 2]
    one = [f for f in F.by_name.get(Bg + 'GoalRegion::isSatisfied', []) if f.body and len(f.params) == 1]
    if not two or not one:
        raise AnalysisBroken('R01u: GoalRegion::isSatisfied vanished')
    two, one = two[0], one[0]
    bad = None
    for d2g in (Fraction(0), Fraction(1, 2), Fraction(3, 2), Fraction(5)):
        for given in (True, False):
            cell = {'v': 'untouched'} if given else None
            m = {'threshold_': Fraction(1), 'd2g': d2g, 'two': two}
            it = GoalInterp(two, m)
            env = {'%s#%d' % (two.params[0]['name'], two.params[0]['did']): ('st',), '%s#%d' % (two.params[1]['name'], two.params[1]['did']): cell}
            r, _ = it.run(env)
            if r != (d2g < 1) and bad is None:
                bad = 'with distance %s and threshold 1 the verdict is %s' % (d2g, r)
            if given and cell['v'] != d2g and bad is None:
                bad = 'with distance %s the value stored in *distance is %s' % (d2g, cell['v'])
        m = {'threshold_': Fraction(1), 'd2g': d2g, 'two': two}
        it = GoalInterp(one, m)
        r, _ = it.run({'%s#%d' % (one.params[0]['name'], one.params[0]['did']): ('st',)})
        if r != (d2g < 1) and bad is None:
            bad = 'the one-argument form answers %s for distance %s and threshold 1' % (r, d2g)
    n += 1
    rep.add('R01u', two.name, 'verdict-and-reported-distance', bad is None, two.loc, bad or 'verdict = distance < threshold and *distance = that distance on 12 abstract runs')
    gs = _fn(F, Bg + 'GoalState::distanceGoal', file_contains='goals')
    m = {'state_': ('goal', 0), 'dist': {0: Fraction(7)}, 'si_': ('si',)}
    it = GoalInterp(gs, m)
    try:
        r, _ = it.run({'%s#%d' % (gs.params[0]['name'], gs.params[0]['did']): ('st',)})
        ok, why = r == Fraction(7), 'returns %s' % (r,)
    except AnalysisBroken as e:
        ok, why = False, str(e)
    n += 1
    rep.add('R01u', gs.name, 'distance-to-the-goal-state', ok, gs.loc, 'si_->distance(st, state_)' if ok else
            'GoalState::distanceGoal is not the distance from the tested state to the goal state: ' + why)
    gss = _fn(F, Bg + 'GoalStates::distanceGoal', file_contains='goals')
    bad = None
    runs = 0
    for perm in list(itertools.permutations([Fraction(1), Fraction(2), Fraction(3)])) + [(), (Fraction(4),)]:
        m = {'states_': [('goal', i) for i in range(len(perm))], 'dist': dict(enumerate(perm)), 'si_': ('si',)}
        it = GoalInterp(gss, m)
        r, _ = it.run({'%s#%d' % (gss.params[0]['name'], gss.params[0]['did']): ('st',)})
        runs += 1
        want = min(perm) if perm else float('inf')
        if r != want and bad is None:
            bad = 'for goal distances %s the result is %s, not the minimum %s' % ([str(x) for x in perm], r, want)
    n += 1
    rep.add('R01u', gss.name, 'minimum-over-all-goal-states', bad is None, gss.loc, bad or 'minimum on %d abstract goal sets' % runs)
    rep.require_count('R01u', 'goal class obligations', n, 3)
