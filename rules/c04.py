"""C04 -- reported costs are truthful, ranked and only improve (structural / finite-domain clauses).

R04a PlannerSolution::operator< is a strict weak order equal to the documented ranking (exhaustive over an abstract
     domain); the solution set sorts after every insertion under its lock and readers take element 0
R04b meetsObjective provenance at every setOptimized call; isSatisfied / isCostBetterThan definitions
R04c incumbent cost replaced only under "strictly better than the incumbent" (argument order and identity)
R04d PathGeometric::cost is the fold initial + motion costs over all adjacent pairs + terminal; length likewise
"""
import itertools
import re
from engine import facts, fd, lin, paths, effects
from engine.facts import AnalysisBroken, src
from engine.shape import key, args, pkey, for_loop

G = 'geometric/planners/'
UNITS = [src('base', 'src', 'ProblemDefinition.cpp'), src('base', 'src', 'OptimizationObjective.cpp'),
         src('geometric', 'src', 'PathGeometric.cpp'),
         src(G + 'rrt/src/RRTstar.cpp'), src(G + 'rrt/src/RRTXstatic.cpp'), src(G + 'rrt/src/STRRTstar.cpp'),
         src(G + 'prm/src/PRM.cpp'), src(G + 'prm/src/LazyPRM.cpp'), src(G + 'prm/src/SPARS.cpp'),
         src(G + 'prm/src/SPARStwo.cpp'), src(G + 'informedtrees/src/BITstar.cpp'),
         src(G + 'informedtrees/src/AITstar.cpp'), src(G + 'informedtrees/src/EITstar.cpp'),
         src(G + 'cforest/src/CForest.cpp'), src(G + 'AnytimePathShortening.cpp'), src(G + 'rrt/src/LBTRRT.cpp'),
         src(G + 'rrt/src/LazyLBTRRT.cpp'), src(G + 'sst/src/SST.cpp'), src(G + 'fmt/src/FMT.cpp'), src(G + 'fmt/src/BFMT.cpp'),
         src(G + 'informedtrees/bitstar/src/Vertex.cpp'), src(G + 'informedtrees/aitstar/src/Vertex.cpp'),
         src(G + 'informedtrees/eitstar/src/Vertex.cpp'), src(G + 'informedtrees/eitstar/src/State.cpp'), src('control/planners/sst/src/SST.cpp'),
         src('base', 'objectives', 'src', 'PathLengthOptimizationObjective.cpp'), src('base', 'objectives', 'src', 'StateCostIntegralObjective.cpp'),
         src('base', 'objectives', 'src', 'MinimaxObjective.cpp'), src('base', 'objectives', 'src', 'MechanicalWorkOptimizationObjective.cpp'),
         src('base', 'objectives', 'src', 'MinimizeArrivalTime.cpp'), src('base', 'objectives', 'src', 'ControlDurationObjective.cpp'),
         src('base', 'objectives', 'src', 'MaximizeMinClearanceObjective.cpp'), src('geometric', 'planners', 'rrt', 'src', 'VFRRT.cpp')]

OO = 'ompl::base::OptimizationObjective::'


def nofp(s):
    return re.sub(r'#\d+', '', s)


# ---------------------------------------------------------------------------------------------------------------
class LtInterp(fd.Interp):
    """operator< over two abstract solutions A (this) and B (the parameter)"""

    def __init__(self, fn, A, B, has_opt, bdid, maximize=False):
        super().__init__(fn)
        self.A, self.B, self.has_opt, self.bdid, self.maximize = A, B, has_opt, bdid, maximize

    def side(self, n):
        """which solution a member expression reads"""
        b = self.fn.strip(n['ch'][0]) if n['ch'] else None
        if b is None or b['k'] == 'CXXThisExpr':
            return self.A
        if b['k'] == 'DeclRefExpr' and b.get('did') == self.bdid:
            return self.B
        raise AnalysisBroken('R04a: operator< reads a field of something that is neither operand')

    def load(self, n, env):
        if n['k'] == 'MemberExpr':
            s = self.side(n)
            nm = n.get('name')
            if nm == 'opt_':
                return ('ptr', 1 if self.has_opt else None)
            if nm in s:
                if nm == 'cost_':
                    return ('cost', s[nm])
                return s[nm]
        raise AnalysisBroken('R04a: operator< reads %s' % self.fn.fp(n['id']))

    def call(self, n, env):
        c = n.get('callee', '')
        if c.endswith('::operator bool') and n['ch']:
            return self.truth(self.ev(n['ch'][0], env))
        if c.endswith('operator->') and n['ch']:
            return self.ev(n['ch'][0], env)
        if c == OO + 'isCostBetterThan':
            if not self.has_opt:
                raise AnalysisBroken('R04a: objective used although absent (null dereference)')
            a = [self.ev(x, env) for x in args(self.fn, n)]
            if not all(isinstance(x, tuple) and x[0] == 'cost' for x in a):
                raise AnalysisBroken('R04a: isCostBetterThan on non-cost values')
            return (a[0][1] > a[1][1]) if self.maximize else (a[0][1] < a[1][1])
        if c in ('std::make_tuple', 'std::tie', 'std::forward_as_tuple'):
            return tuple(self.ev(x, env) for x in args(self.fn, n))
        if c in ('std::operator<', 'std::operator>', 'std::operator<=', 'std::operator>=') and len(n['ch']) == 2:
            x, y = self.ev(n['ch'][0], env), self.ev(n['ch'][1], env)
            if isinstance(x, tuple) and isinstance(y, tuple) and len(x) == len(y):
                # std::tuple comparison is lexicographic over operator< of the elements; raw numeric values only
                if any(isinstance(e, tuple) for e in x + y):
                    raise AnalysisBroken('R04a: tuple comparison over opaque values')
                return {'<': x < y, '>': x > y, '<=': x <= y, '>=': x >= y}[c[len('std::operator'):]]
        if c == 'ompl::base::Cost::value' and n['ch']:
            v = self.ev(n['ch'][0], env)
            if isinstance(v, tuple) and v[0] == 'cost':
                return v[1]
        raise AnalysisBroken('R04a: operator< calls ' + c)


def spec_less(a, b, has_opt, maximize=False):
    if not a['approximate_'] and b['approximate_']:
        return True
    if a['approximate_'] and not b['approximate_']:
        return False
    if a['approximate_'] and b['approximate_']:
        return a['difference_'] < b['difference_']
    if a['optimized_'] and not b['optimized_']:
        return True
    if not a['optimized_'] and b['optimized_']:
        return False
    if has_opt:
        return (a['cost_'] > b['cost_']) if maximize else (a['cost_'] < b['cost_'])
    return a['length_'] < b['length_']


def r04a(rep, F):
    rep.rule('R04a', 'PlannerSolution::operator< evaluated on every pair of an abstract universe (approximate x optimized x '
                     'three ranks each of difference, cost and length; objective present/absent): irreflexive, asymmetric, '
                     'transitive, incomparability transitive, and equal to the documented ranking (exact < approximate; '
                     'smaller difference; objective-satisfying first; better cost, or shorter length without objective). '
                     'PlannerSolutionSet::add sorts under the lock after every insertion; readers return element 0')
    fn = F.one('ompl::base::PlannerSolution::operator<')
    bdid = fn.params[0]['did']
    U = [dict(approximate_=a, optimized_=o, difference_=d, cost_=c, length_=l)
         for a in (False, True) for o in (False, True) for d in (0, 1, 2) for c in (0, 1, 2) for l in (0, 1, 2)]
    n = len(U)
    for has_opt, maximize in ((True, False), (True, True), (False, False)):
        T = [[False] * n for _ in range(n)]
        bad = None
        for i, a in enumerate(U):
            for j, b in enumerate(U):
                got, _ = LtInterp(fn, a, b, has_opt, bdid, maximize).run()
                T[i][j] = bool(got)
                if bool(got) != spec_less(a, b, has_opt, maximize) and bad is None:
                    bad = 'operator< gives %s for A=%s B=%s%s, the documented ranking gives %s' % (
                        got, a, b, ' under an objective whose isCostBetterThan prefers larger values (e.g. max-min clearance)'
                        if maximize else '', spec_less(a, b, has_opt, maximize))
        role = ('objective-present' + ('-maximizing' if maximize else '')) if has_opt else 'objective-absent'
        rep.add('R04a', fn.name, 'equals-ranking:' + role, bad is None, fn.loc,
                bad or 'equal to the documented ranking on all %d pairs' % (n * n),
                sample={'pairs': n * n, 'example': {'A': U[5], 'B': U[60], 'A<B': T[5][60]}})
        # strict weak order on the table
        swo = None
        for i in range(n):
            if T[i][i]:
                swo = 'not irreflexive at %s' % U[i]
                break
        if swo is None:
            for i in range(n):
                for j in range(n):
                    if T[i][j] and T[j][i]:
                        swo = 'not asymmetric: %s and %s' % (U[i], U[j])
                        break
                if swo:
                    break
        if swo is None:
            inc = [[(not T[i][j]) and (not T[j][i]) for j in range(n)] for i in range(n)]
            for i in range(n):
                Ti, Ii = T[i], inc[i]
                for j in range(n):
                    if Ti[j]:
                        Tj = T[j]
                        for k in range(n):
                            if Tj[k] and not Ti[k]:
                                swo = 'not transitive: %s < %s < %s' % (U[i], U[j], U[k])
                                break
                    elif Ii[j]:
                        Ij = inc[j]
                        for k in range(n):
                            if Ij[k] and not Ii[k]:
                                swo = 'incomparability not transitive: %s ~ %s ~ %s (std::sort requires a strict weak ' \
                                      'order)' % (U[i], U[j], U[k])
                                break
                    if swo:
                        break
                if swo:
                    break
        rep.add('R04a', fn.name, 'strict-weak-order:' + role, swo is None, fn.loc,
                swo or 'irreflexive, asymmetric, transitive, transitive incomparability on %d triples' % (n ** 3))
    # the set: add() sorts after push_back under the lock
    add = F.one('ompl::base::ProblemDefinition::PlannerSolutionSet::add')

    class SortAfterPush(paths.Client):
        track = 'none'

        def __init__(self):
            self.bad = []
            self.pushes = 0

        def init(self, fn):
            return False

        def on_node(self, fn, node, auto, ctx):
            if node.get('callee') in ('std::vector::push_back', 'std::vector::emplace_back', 'std::vector::insert') and \
                    'solutions_' in fn.fp(node['ch'][0]):
                self.pushes += 1
                return True
            if node.get('callee') in ('std::sort', 'std::stable_sort') and 'solutions_' in fn.fp(node['id']):
                a = args(fn, node)
                if 'begin' in fn.fp(a[0]) and 'end' in fn.fp(a[1]):
                    return False
            return auto

        def at_exit(self, fn, ret, auto, ctx):
            if auto:
                self.bad.append(ctx.path())
    cl = SortAfterPush()
    paths.run_function(add, cl, F)
    if not cl.pushes:
        raise AnalysisBroken('R04a: PlannerSolutionSet::add does not insert')
    rep.add('R04a', add.name, 'sorted-after-insert', not cl.bad, add.loc,
            'a path leaves add() with an inserted solution and no sort over the whole set' if cl.bad else
            'std::sort(begin, end) follows the insertion on every path', cl.bad[0] if cl.bad else None)
    readers = ['isApproximate', 'isOptimized', 'getDifference', 'getTopSolution']
    for r in readers:
        for f in F.fn('ompl::base::ProblemDefinition::PlannerSolutionSet::' + r):
            idx = [x for x in f.walk() if x.get('oop') == '[]' and 'solutions_' in f.fp(x['ch'][0])]
            fr = [x for x in f.walk() if x.get('callee') == 'std::vector::front' and 'solutions_' in f.fp(x['ch'][0])]
            ok = (idx or fr) and all(lin.lin(f, x['ch'][1]) == {1: 0} for x in idx)
            rep.add('R04a', f.name + f.sig, 'reads-best-element', bool(ok), f.loc,
                    'reads solutions_[0]' if ok else 'does not answer from the first (best) element')


# ---------------------------------------------------------------------------------------------------------------
def r04b(rep, F):
    rep.rule('R04b', 'at every setOptimized(objective, cost, flag): flag is the literal false, or objective->isSatisfied(E) '
                     'with E the stored cost, or a local/member whose every definition is false / isSatisfied(..) on the value '
                     'that becomes the stored cost (frozen alias table with reasons); isSatisfied(c) = isCostBetterThan(c, '
                     'threshold) and isCostBetterThan(a,b) = a.value() < b.value()')
    # alias table: (function) -> (cost argument fingerprint, satisfied-expression fingerprint, reason)
    ALIAS = {
        'ompl::geometric::RRTstar::solve': ('newSolution.cost', 'this.bestCost_',
                                           'bestCost_ is assigned bestGoalMotion_->cost whenever bestGoalMotion_ changes and '
                                           'newSolution is bestGoalMotion_ when it exists'),
    }
    sites = 0
    for f in F.functions:
        for c in f.walk():
            if c.get('callee') != 'ompl::base::PlannerSolution::setOptimized':
                continue
            sites += 1
            a = args(f, c)
            costfp = nofp(f.fp(a[1]))
            flag = f.strip(a[2])
            role = 'setOptimized#%d' % len([x for x in f.walk() if x.get('callee') == c['callee'] and x['id'] <= c['id']])
            ok = False
            why = 'flag provenance not recognised'

            def sat_arg(node):
                """E if node is X->isSatisfied(E)"""
                if node is not None and node.get('callee') == OO + 'isSatisfied':
                    return nofp(f.fp(args(f, node)[0]))
                return None
            if flag is not None and flag['k'] == 'CXXBoolLiteralExpr' and flag['v'] is False:
                ok, why = True, 'literal false'
            elif sat_arg(flag) is not None:
                e = sat_arg(flag)
                if e == costfp:
                    ok, why = True, 'isSatisfied(%s) on the stored cost' % e
                elif f.name in ALIAS and ALIAS[f.name][0] == costfp and ALIAS[f.name][1] == e:
                    ok, why = True, 'isSatisfied(%s) for stored %s: %s' % (e, costfp, ALIAS[f.name][2])
                else:
                    why = 'flag is isSatisfied(%s) but the stored cost is %s' % (e, costfp)
            elif flag is not None and flag['k'] == 'DeclRefExpr' and flag.get('dk') == 'Local':
                # every definition of the local: false, true-under-isSatisfied-guard, or isSatisfied(..)
                k = '%s#%d' % (flag['name'], flag['did'])
                defs = []
                for n in f.walk():
                    if n['k'] == 'DeclStmt':
                        for d in n.get('decls', []):
                            if '%s#%d' % (d['name'], d['did']) == k and d.get('init'):
                                defs.append((d['init'], n['id']))
                    elif n['k'] == 'BinaryOperator' and n.get('op') == '=' and key(f, n['ch'][0]) == k:
                        defs.append((n['ch'][1], n['id']))
                bad = None
                for rhs, sid in defs:
                    r = f.strip(rhs)
                    if r is not None and r['k'] == 'CXXBoolLiteralExpr' and r['v'] is False:
                        continue
                    if sat_arg(r) is not None:
                        continue
                    if r is not None and r['k'] == 'CXXBoolLiteralExpr' and r['v'] is True:
                        g = [x for x in f.ancestors(sid) if x['k'] == 'IfStmt' and sat_arg(f.strip(x['cond'])) is not None]
                        if g:
                            continue
                    bad = 'a definition of %s is neither false nor an isSatisfied() result' % flag['name']
                ok, why = (bad is None), (bad or 'local %s: every definition is false or an isSatisfied() verdict' % flag['name'])
            elif flag is not None and flag.get('callee') == 'ompl::geometric::PRM::addedNewSolution':
                # member set only from maybeConstructSolution(), whose true results are isSatisfied(pathCost)
                m = F.one('ompl::geometric::PRM::maybeConstructSolution')
                rets = [r for r in m.walk() if r['k'] == 'ReturnStmt']
                tr = [r for r in rets if (m.strip(r['ch'][0]) or {}).get('v') is True]
                okr = bool(tr) and all(any(x['k'] == 'IfStmt' and (m.strip(x['cond']) or {}).get('callee') == OO + 'isSatisfied'
                                           for x in m.ancestors(r['id'])) for r in tr) and \
                    all((m.strip(r['ch'][0]) or {}).get('k') == 'CXXBoolLiteralExpr' for r in rets)
                ok, why = okr, ('addedNewSolution_: maybeConstructSolution returns true only under isSatisfied(pathCost)' if okr
                                else 'maybeConstructSolution can return true without the objective being satisfied')
            rep.add('R04b', f.name, role, ok, f.where(c), why)
    rep.require_count('R04b', 'setOptimized call sites', sites, 10)
    isat = F.one(OO + 'isSatisfied')
    rets = [r for r in isat.walk() if r['k'] == 'ReturnStmt']
    ok = False
    if len(rets) == 1:
        c = isat.strip(rets[0]['ch'][0])
        if c is not None and c.get('callee') == OO + 'isCostBetterThan':
            a = args(isat, c)
            ok = key(isat, a[0]) == pkey(isat, 0) and nofp(isat.fp(a[1])) == 'this.threshold_'
    rep.add('R04b', isat.name, 'definition', ok, isat.loc, 'isCostBetterThan(c, threshold_)' if ok else
            'isSatisfied is not isCostBetterThan(c, threshold_)')
    ib = F.one(OO + 'isCostBetterThan')

    class CB(fd.Interp):
        def __init__(self, fn, v):
            super().__init__(fn)
            self.v = v

        def call(self, n, env):
            if n.get('callee') == 'ompl::base::Cost::value':
                o = self.fn.strip(n['ch'][0])
                if o is not None and o['k'] == 'DeclRefExpr':
                    return self.v[o['did']]
            raise AnalysisBroken('R04b: isCostBetterThan calls ' + str(n.get('callee')))
    bad = None
    for x, y in itertools.product((0, 1, 2), repeat=2):
        got, _ = CB(ib, {ib.params[0]['did']: x, ib.params[1]['did']: y}).run()
        if got != (x < y):
            bad = 'isCostBetterThan gives %s for ranks (%d, %d): a cost would be "better" than an equal one' % (got, x, y)
    rep.add('R04b', ib.name, 'strict-less', bad is None, ib.loc, bad or 'c1.value() < c2.value() on all 9 orderings')
    ie = F.one(OO + 'isCostEquivalentTo')

    class CE(fd.Interp):
        def __init__(self, fn, v):
            super().__init__(fn)
            self.v = v

        def call(self, n, env):
            if n.get('callee') == OO + 'isCostBetterThan':
                a = [self.fn.strip(x) for x in args(self.fn, n)]
                return self.v[a[0]['did']] < self.v[a[1]['did']]
            raise AnalysisBroken('R04b: isCostEquivalentTo calls ' + str(n.get('callee')))
    bad = None
    for x, y in itertools.product((0, 1, 2), repeat=2):
        got, _ = CE(ie, {ie.params[0]['did']: x, ie.params[1]['did']: y}).run()
        if got != (x == y):
            bad = 'isCostEquivalentTo gives %s for ranks (%d, %d)' % (got, x, y)
    rep.add('R04b', ie.name, 'neither-better', bad is None, ie.loc, bad or 'neither is better than the other, on all 9 orderings')


# ---------------------------------------------------------------------------------------------------------------
BETTER = (OO + 'isCostBetterThan', 'ompl::geometric::EITstar::isBetter', 'ompl::geometric::BITstar::CostHelper::isCostBetterThan')
# incumbent members by planner (frozen; TRRT/BiTRRT bestCost_ is a state-cost statistic, not an incumbent)
INCUMBENT = {
    'ompl::geometric::RRTstar': 'bestCost_', 'ompl::geometric::PRM': 'bestCost_', 'ompl::geometric::SPARS': 'bestCost_',
    'ompl::geometric::SPARStwo': 'bestCost_', 'ompl::geometric::LazyPRM': 'bestCost_',
    'ompl::geometric::CForest': 'bestCost_', 'ompl::geometric::AnytimePathShortening': 'bestCost_',
    'ompl::geometric::AITstar': 'solutionCost_', 'ompl::geometric::EITstar': 'solutionCost_',
    'ompl::geometric::RRTXstatic': 'bestCost_',
}
RESET = re.compile(r'infiniteCost|quiet_NaN|signaling_NaN|infinity')
# guards other than the comparison that may accompany it (one symbol each, with the reason)
OTHER_DISJUNCT_OK = {
    'ompl::geometric::AITstar::updateExactSolution': 'or the exact solution was removed from the problem definition by the user',
    'ompl::geometric::EITstar::updateExactSolution': 'or the exact solution was removed from the problem definition by the user',
}
FIRST_SOLUTION = {
    ('ompl::geometric::RRTstar::solve', 'this.bestGoalMotion_'): 'first solution: no incumbent exists (bestGoalMotion_ is null)',
    ('ompl::geometric::LazyPRM::solve', 'isSatisfied'): 'objective satisfied: the search stops with this solution',
}


# improvement sites confirmed by reading today: if one of them loses its guard that is a violation, not an unknown idiom
G_ = 'ompl::geometric::'
FROZEN_SITES = {
    (G_ + 'RRTstar::solve', 'incumbent-store#1'), (G_ + 'RRTstar::solve', 'incumbent-store#2'),
    (G_ + 'RRTXstatic::solve', 'incumbent-store#1'), (G_ + 'PRM::maybeConstructSolution', 'incumbent-store#1'),
    (G_ + 'LazyPRM::solve', 'incumbent-store#2'), (G_ + 'LazyPRM::solve', 'incumbent-store#3'),
    (G_ + 'SPARS::haveSolution', 'incumbent-store#1'), (G_ + 'SPARStwo::haveSolution', 'incumbent-store#1'),
    (G_ + 'AITstar::updateExactSolution', 'incumbent-store#1'), (G_ + 'EITstar::updateExactSolution', 'incumbent-store#1'),
    (G_ + 'CForest::newSolutionFound', 'incumbent-store#1'), (G_ + 'AnytimePathShortening::addPath', 'incumbent-store#1'),
}


# resets that forget the previous query unconditionally today (clear() and the query prologue); they must stay so
UNCOND_RESETS = {
    (G_ + 'RRTstar::clear', 1), (G_ + 'RRTXstatic::clear', 1), (G_ + 'PRM::clear', 1), (G_ + 'PRM::constructRoadmap', 1),
    (G_ + 'LazyPRM::clear', 1), (G_ + 'LazyPRM::solve', 1), (G_ + 'SPARS::clear', 1), (G_ + 'SPARS::constructRoadmap', 1),
    (G_ + 'SPARStwo::clear', 1), (G_ + 'SPARStwo::constructRoadmap', 1), (G_ + 'EITstar::clear', 1), (G_ + 'CForest::clear', 1),
    (G_ + 'CForest::setup', 1), (G_ + 'CForest::solve', 1), (G_ + 'AnytimePathShortening::solve', 1),
    (G_ + 'AnytimePathShortening::clear', 1),
}


def atoms(fn, nid, pol, out, disj):
    """flatten a condition into (node, polarity, inside_disjunction)"""
    n = fn.strip(nid)
    if n is None:
        return
    if n['k'] == 'UnaryOperator' and n.get('op') == '!':
        atoms(fn, n['ch'][0], not pol, out, disj)
    elif n['k'] == 'BinaryOperator' and n.get('op') in ('&&', '||'):
        d = disj or ((n['op'] == '||') == pol)
        atoms(fn, n['ch'][0], pol, out, d)
        atoms(fn, n['ch'][1], pol, out, d)
    else:
        out.append((n, pol, disj))


def r04c(rep, F):
    rep.rule('R04c', 'every store to a planner\'s incumbent cost is a reset to infinity outside any loop, or lies in the '
                     'then-branch of a test isCostBetterThan(new, incumbent) = true with the incumbent as second argument and '
                     'the stored value equal to the first (aliases through the assignment made in between are followed); '
                     'first-solution and objective-satisfied idioms are frozen exceptions with reasons')
    n_imp = 0
    seen_uncond = set()
    for f in F.functions:
        if f.record not in INCUMBENT:
            continue
        member = INCUMBENT[f.record]
        ordn = 0
        for n in f.walk():
            tgt = rhs = None
            if n['k'] == 'BinaryOperator' and n.get('op') == '=':
                tgt, rhs = n['ch'][0], n['ch'][1]
            elif n['k'] == 'CXXOperatorCallExpr' and n.get('oop') == '=' and len(n['ch']) == 2:
                tgt, rhs = n['ch'][0], n['ch'][1]
            if tgt is None or nofp(f.fp(tgt)) != 'this.' + member:
                continue
            ordn += 1
            role = 'incumbent-store#%d' % ordn
            rfp = nofp(f.fp(rhs))
            in_loop = any(a['k'] in ('ForStmt', 'WhileStmt', 'DoStmt', 'CXXForRangeStmt') for a in f.ancestors(n['id']))
            if RESET.search(rfp):
                ok = not in_loop or f.d.get('kind') == 'ctor'
                det = 'reset to "no solution" outside the search loop' if ok else \
                    'the incumbent is reset to "no solution" inside a loop: the best cost can get worse'
                if ok and (f.name, ordn) in UNCOND_RESETS:
                    seen_uncond.add((f.name, ordn))
                    if any(a['k'] in ('IfStmt', 'ConditionalOperator') for a in f.ancestors(n['id'])):
                        ok = False
                        det = 'this reset used to be unconditional and is now guarded: the incumbent cost of a previous ' \
                              'query can survive clear()/clearQuery() and be stored with a more expensive path'
                rep.add('R04c', f.name, role + ':reset', ok, f.where(n), det, nontrivial=(f.name, ordn) in UNCOND_RESETS)
                continue
            n_imp += 1
            # aliases: assignments in the same then-branch before the store: X = Y  => RHS mentions X -> Y
            guards = []
            cur = n['id']
            for a in f.ancestors(n['id']):
                if a['k'] == 'IfStmt' and a.get('then') and (a['then'] == cur or any(x['id'] == n['id'] for x in f.walk(a['then']))):
                    guards.append(a)
                cur = a['id']
            alias = {}
            for g in guards[:1]:
                for x in f.walk(g['then']):
                    if x['id'] == n['id']:
                        break
                    if x['k'] == 'BinaryOperator' and x.get('op') == '=':
                        alias[nofp(f.fp(x['ch'][0]))] = nofp(f.fp(x['ch'][1]))
                    elif x['k'] == 'CXXOperatorCallExpr' and x.get('oop') == '=' and len(x['ch']) == 2:
                        alias[nofp(f.fp(x['ch'][0]))] = nofp(f.fp(x['ch'][1]))
            rnorm = rfp
            for a_from, a_to in alias.items():
                rnorm = rnorm.replace(a_from, a_to)
            verdict = None
            detail = 'no enclosing comparison with the incumbent'
            for g in guards:
                at = []
                atoms(f, g['cond'], True, at, False)
                for (an, pol, disj) in at:
                    if an.get('callee') in BETTER:
                        a = args(f, an)
                        A, Bv = nofp(f.fp(a[0])), nofp(f.fp(a[1]))
                        if not pol:
                            detail = 'stored under a *negated* comparison'
                            continue
                        if Bv != 'this.' + member:
                            if A == 'this.' + member:
                                verdict, detail = False, 'comparison arguments swapped: stores when the incumbent is better than the new cost'
                            continue
                        if A not in (rfp, rnorm):
                            verdict, detail = False, 'compares %s with the incumbent but stores %s' % (A, rfp)
                            continue
                        if disj and f.name not in OTHER_DISJUNCT_OK:
                            verdict, detail = False, 'the comparison is only one alternative of a disjunction'
                            continue
                        verdict = True
                        detail = 'under isCostBetterThan(%s, incumbent)%s' % (A, (' (' + OTHER_DISJUNCT_OK[f.name] + ')') if disj else '')
                        break
                    fs_key = [k for k in FIRST_SOLUTION if k[0] == f.name and k[1] in nofp(f.fp(an['id']))]
                    if fs_key and verdict is None:
                        if fs_key[0][1] == 'isSatisfied' and pol and nofp(f.fp(args(f, an)[0])) == rfp:
                            verdict, detail = True, FIRST_SOLUTION[fs_key[0]]
                        elif fs_key[0][1] != 'isSatisfied' and not pol:
                            verdict, detail = True, FIRST_SOLUTION[fs_key[0]]
                if verdict is not None:
                    break
            if verdict is None:
                if (f.name, role) in FROZEN_SITES:
                    verdict, detail = False, 'the incumbent is overwritten with %s without the strictly-better comparison that ' \
                                             'guarded this update (%s)' % (rfp, detail)
                else:
                    rep.undecided('R04c', f.name, role, 'guard idiom not in the frozen table (%s); stored %s' % (detail, rfp))
                    continue
            rep.add('R04c', f.name, role, verdict, f.where(n), detail)
    rep.require_count('R04c', 'incumbent improvement sites', n_imp, 10)
    for (fname, o) in sorted(UNCOND_RESETS - seen_uncond):
        fs = F.by_name.get(fname)
        if not fs:
            raise AnalysisBroken('R04c: %s vanished' % fname)
        rep.add('R04c', fname, 'incumbent-store#%d:reset' % o, False, fs[0].loc,
                'the unconditional reset of the incumbent in this function is gone: the cost of a previous query survives')
    r04e(rep, F)


def loops_around(f, nid):
    return tuple(a['id'] for a in f.ancestors(nid) if a['k'] in ('ForStmt', 'WhileStmt', 'DoStmt', 'CXXForRangeStmt'))


def r04e(rep, F):
    rep.rule('R04e', 'argmin pairs: where a loop keeps a running best cost ACC (if isCostBetterThan(x, ACC) { ACC = x; ITEM = '
                     '...; }) the branch stores x (or the same cost read back through the selected item) into ACC, and the accumulator '
                     'and every item selected with it live across the same loops: an accumulator '
                     'declared inside a loop that the selected item outlives is re-initialised per iteration, so the '
                     'reported item is no longer the one whose cost is reported')
    n = 0
    for f in F.functions:
        if not f.file.endswith('.cpp') or '/planners/' not in f.file:
            continue
        decl_at = {}
        for x in f.walk():
            if x['k'] == 'DeclStmt':
                for d in x.get('decls', []):
                    decl_at['%s#%d' % (d['name'], d['did'])] = x['id']
        for i in [x for x in f.walk() if x['k'] == 'IfStmt']:
            at = []
            atoms(f, i['cond'], True, at, False)
            for (an, pol, disj) in at:
                if an.get('callee') not in BETTER or not pol:
                    continue
                a = args(f, an)
                acc = f.strip(a[1])
                if acc is None or acc['k'] != 'DeclRefExpr' or acc.get('dk') != 'Local':
                    continue
                acck = '%s#%d' % (acc['name'], acc['did'])
                xfp = f.fp(a[0])
                stores = []
                for y in f.walk(i['then']):
                    t = r = None
                    if y['k'] == 'BinaryOperator' and y.get('op') == '=':
                        t, r = y['ch']
                    elif y['k'] == 'CXXOperatorCallExpr' and y.get('oop') == '=' and len(y['ch']) == 2:
                        t, r = y['ch']
                    if t is not None:
                        stores.append((f.strip(t), r, y))
                if not stores or acck not in decl_at or not loops_around(f, i['id']):
                    continue
                if not any(key(f, y[2]['ch'][0]) == acck for y in stores) and not any(
                        y[0] is not None and y[0]['k'] in ('DeclRefExpr', 'MemberExpr') and not (f.nodes[y[1]].get('ty') or '').endswith('bool')
                        for y in stores):
                    continue
                n += 1
                items = [nofp(f.fp(y[2]['ch'][0])) for y in stores if key(f, y[2]['ch'][0]) != acck]
                sub = [xfp] + [xfp.replace(f.fp(y[1]), f.fp(y[2]['ch'][0])) for y in stores if key(f, y[2]['ch'][0]) != acck]
                if not any(key(f, y[2]['ch'][0]) == acck and f.fp(y[1]) in sub for y in stores):
                    rep.add('R04e', f.name, 'argmin#%s' % acc['name'], False, f.where(i),
                            'the branch taken when %s is better than the running best %s selects %s but does not store that cost into %s: '
                            'later candidates are compared with a stale bound and the item kept is not the best one'
                            % (nofp(xfp), acc['name'], ', '.join(items) or 'an item', acc['name']))
                    continue
                acc_loops = set(loops_around(f, decl_at[acck]))
                bad = None
                for (t, r, y) in stores:
                    if t is None or key(f, y['ch'][0]) == acck:
                        continue
                    tk = key(f, y['ch'][0])
                    if t['k'] == 'DeclRefExpr' and t.get('dk') == 'Local' and tk in decl_at:
                        item_loops = set(loops_around(f, decl_at[tk]))
                    else:
                        item_loops = set()  # parameters, members: live across every loop of the function
                    if acc_loops - item_loops:
                        bad = 'the running best %s is declared inside a loop that the selected %s outlives' % (
                            acc['name'], nofp(f.fp(y['ch'][0])))
                rep.add('R04e', f.name, 'argmin#%s' % acc['name'], bad is None, f.where(i),
                        bad or 'accumulator %s and the items selected with it share their loop scope' % acc['name'])
    rep.require_count('R04e', 'argmin pairs in planner loops', n, 2)


# ---------------------------------------------------------------------------------------------------------------
def r04d(rep, F):
    rep.rule('R04d', 'PathGeometric::cost = initialCost(front), then combineCosts(acc, motionCost(s[i-1], s[i])) for i = 1 .. '
                     'size-1 into the same accumulator, then combineCosts(acc, terminalCost(back)); length() sums '
                     'distance(s[i-1], s[i]) over the same index range')
    fn = F.one('ompl::geometric::PathGeometric::cost')
    why = None
    fors = [n for n in fn.walk() if n['k'] == 'ForStmt']
    inits = [c for c in fn.walk() if c.get('callee') == OO + 'initialCost']
    terms = [c for c in fn.walk() if c.get('callee') == OO + 'terminalCost']
    if len(fors) != 1:
        raise AnalysisBroken('R04d: cost() loop not recognised')
    idx, start, cond, stride = for_loop(fn, fors[0])
    S = 'std::vector::size(this.states_)'
    if not inits or 'front' not in fn.fp(args(fn, inits[0])[0]):
        why = 'does not start from initialCost(first state)'
    elif start != {1: 1} or stride != 1 or cond != ('le0', lin.canon({idx: 1, S: -1, 1: 1})):
        why = 'motion costs are not accumulated for i = 1 .. size-1 (start %s, bound %s)' % (lin.show(start), lin.show(cond[1]) if cond else '?')
    else:
        mc = [c for c in fn.walk(fors[0]['body']) if c.get('callee') == OO + 'motionCost']
        cc = [c for c in fn.walk(fors[0]['body']) if c.get('callee') == OO + 'combineCosts']
        if len(mc) != 1 or len(cc) != 1:
            why = 'loop body is not one combineCosts(acc, motionCost(..))'
        else:
            a = args(fn, mc[0])
            i0, i1 = fn.strip(a[0]), fn.strip(a[1])
            if not (i0.get('oop') == '[]' and i1.get('oop') == '[]' and lin.lin(fn, i0['ch'][1]) == {idx: 1, 1: -1} and
                    lin.lin(fn, i1['ch'][1]) == {idx: 1} and 'states_' in fn.fp(i0['ch'][0]) and 'states_' in fn.fp(i1['ch'][0])):
                why = 'motion cost is not taken between states i-1 and i'
            else:
                # accumulation into the same variable that is returned
                st = [n for n in fn.walk(fors[0]['body']) if (n.get('oop') == '=' or (n['k'] == 'BinaryOperator' and n.get('op') == '='))]
                acc = key(fn, st[0]['ch'][0]) if st else None
                ca = args(fn, cc[0])
                rets = [r for r in fn.walk() if r['k'] == 'ReturnStmt']
                last = rets[-1]
                if acc is None or key(fn, ca[0]) != acc or not any(x['id'] == mc[0]['id'] for x in fn.walk(ca[1])):
                    why = 'the loop does not fold into one accumulator'
                elif key(fn, last['ch'][0]) != acc and acc not in fn.fp(last['ch'][0]):
                    why = 'the accumulator is not what is returned'
                elif not terms or 'back' not in fn.fp(args(fn, terms[0])[0]):
                    why = 'terminalCost(last state) is not added'
                else:
                    tcomb = [c for c in fn.walk() if c.get('callee') == OO + 'combineCosts' and
                             any(x['id'] == terms[0]['id'] for x in fn.walk(c['id']))]
                    if not tcomb or key(fn, args(fn, tcomb[0])[0]) != acc or fn.line(tcomb[0]) < fn.line(fors[0]):
                        why = 'terminal cost is not combined into the accumulator after the loop'
    rep.add('R04d', fn.name, 'fold-shape', why is None, fn.loc, why or 'initial + sum of motion costs over all adjacent pairs + terminal')
    ln = F.one('ompl::geometric::PathGeometric::length')
    fors = [n for n in ln.walk() if n['k'] == 'ForStmt']
    why = None
    if len(fors) != 1:
        raise AnalysisBroken('R04d: length() loop not recognised')
    idx, start, cond, stride = for_loop(ln, fors[0])
    dc = [c for c in ln.walk(fors[0]['body']) if c.get('callee', '').endswith('::distance')]
    if start != {1: 1} or stride != 1 or cond != ('le0', lin.canon({idx: 1, S: -1, 1: 1})):
        why = 'length is not summed for i = 1 .. size-1'
    elif len(dc) != 1:
        why = 'loop body is not one distance call'
    else:
        a = args(ln, dc[0])
        i0, i1 = ln.strip(a[0]), ln.strip(a[1])
        if not (i0.get('oop') == '[]' and i1.get('oop') == '[]' and
                {lin.canon(lin.lin(ln, i0['ch'][1])), lin.canon(lin.lin(ln, i1['ch'][1]))} ==
                {lin.canon({idx: 1, 1: -1}), lin.canon({idx: 1})}):
            why = 'distance is not taken between states i-1 and i'
        elif not any(n['k'] == 'CompoundAssignOperator' and n.get('op') == '+=' for n in ln.walk(fors[0]['body'])):
            why = 'distances are not accumulated'
    rep.add('R04d', ln.name, 'fold-shape', why is None, ln.loc, why or 'sum of distance(s[i-1], s[i]) for i = 1 .. size-1')


def r04f(rep, F):
    rep.rule('R04f', 'cost bookkeeping moves together: in planners whose tree node has the fields parent, cost and incCost (cost(m) == '
                     'combine(cost(parent(m)), incCost(m)) is the invariant updateChildCosts relies on), every block that assigns '
                     'X->parent a non-null node also assigns X->incCost and X->cost for the same X -- a parent change that keeps the old '
                     'incremental cost makes every later cost propagation under-/over-state the path cost')
    n = 0
    recs = {name for name, rs in F.records.items() if {'parent', 'cost', 'incCost'} <= {fl['name'] for fl in rs[0].get('fields', [])}}
    if not recs:
        raise AnalysisBroken('R04f: no tree-node record with parent / cost / incCost found')
    for f in F.functions:
        if not f.body or '/planners/' not in f.file:
            continue
        for x in f.walk():
            if x['k'] != 'BinaryOperator' or x.get('op') != '=':
                continue
            t = f.strip(x['ch'][0])
            if t is None or t['k'] != 'MemberExpr' or t.get('name') != 'parent' or (t.get('q') or '').rsplit('::', 1)[0] not in recs:
                continue
            r = f.strip(x['ch'][1])
            if r is not None and r['k'] in ('CXXNullPtrLiteralExpr', 'GNUNullExpr'):
                continue
            base = f.fp(t['ch'][0])
            blk = None
            for anc in f.ancestors(x['id']):
                if anc['k'] == 'CompoundStmt':
                    blk = anc
                    break
            if blk is None:
                continue
            have = set()
            for y in f.walk(blk['id']):
                if (y['k'] == 'BinaryOperator' and y.get('op') == '=') or (y['k'] == 'CXXOperatorCallExpr' and y.get('oop') == '=' and len(y['ch']) == 2):
                    ty = f.strip(y['ch'][0])
                    if ty is not None and ty['k'] == 'MemberExpr' and ty.get('name') in ('cost', 'incCost') and f.fp(ty['ch'][0]) == base:
                        have.add(ty['name'])
            n += 1
            missing = sorted({'cost', 'incCost'} - have)
            rep.add('R04f', f.name, 'parent-cost-incCost@%s#%d' % (re.sub(r'#\d+', '', base), len([1 for o in rep.obl if o['rule'] == 'R04f' and o['function'] == f.name])),
                    not missing, f.where(x), 'parent, cost and incCost assigned together' if not missing else
                    '%s->parent is re-assigned without %s in the same block: the stored cost no longer equals the cost of the path to the root'
                    % (re.sub(r'#\d+', '', base), ' and '.join('->' + m for m in missing)))
    rep.require_count('R04f', 'parent re-assignments with cost bookkeeping', n, 4)


TWOWAY_EXCEPTIONS = {
    ('ompl::geometric::STRRTstar::pruneGoalTree', 'c'): 'the children vector is copied wholesale to the re-created node (xmotion->children = old->children) '
                                                      'and each child is then pointed at it',
    ('ompl::geometric::LBKPIECE1::isPathValid', 'reAdd'): 'a motion detached earlier by removeMotion (which erases it from its parent) is re-attached',
}


def r04g(rep, F):
    rep.rule('R04g', 'tree links are two-way (node types with both `parent` and `children`): every X->parent = P (P non-null) is matched in the '
                     'same function, in the enclosing block or later, by a push of X onto a children list (P->children.push_back(X) or '
                     'X->parent->children.push_back(X)); and when X is an existing node (not created by `new` in this function) the same '
                     'block detaches it from its old parent first (removeFromParent(X)).  Cost propagation (updateChildCosts) and pruning '
                     'walk the children lists: a one-way link leaves descendants with stale costs or unreachable for freeing')
    recs = {name for name, rs in F.records.items() if {'parent', 'children'} <= {fl['name'] for fl in rs[0].get('fields', [])}}
    n = 0
    for f in F.functions:
        if not f.body or '/planners/' not in f.file:
            continue
        fresh = set()
        for x in f.walk():
            if x['k'] == 'DeclStmt':
                for d in x.get('decls', []):
                    if d.get('init') and any(y['k'] == 'CXXNewExpr' for y in f.walk(d['init'])):
                        fresh.add('%s#%d' % (d['name'], d['did']))
            if x['k'] == 'BinaryOperator' and x.get('op') == '=' and any(y['k'] == 'CXXNewExpr' for y in f.walk(x['ch'][1])):
                k_ = key(f, x['ch'][0])
                if k_:
                    fresh.add(k_)
        pushes = [(f.line(c), f.fp(args(f, c)[0])) for c in f.walk() if (c.get('callee') or '').endswith('::push_back') and args(f, c) and
                  'children' in f.fp(c['ch'][0])]
        for x in f.walk():
            if x['k'] != 'BinaryOperator' or x.get('op') != '=':
                continue
            t = f.strip(x['ch'][0])
            if t is None or t['k'] != 'MemberExpr' or t.get('name') != 'parent' or (t.get('q') or '').rsplit('::', 1)[0] not in recs:
                continue
            r = f.strip(x['ch'][1])
            if r is not None and r['k'] in ('CXXNullPtrLiteralExpr', 'GNUNullExpr'):
                continue
            basefp = f.fp(t['ch'][0])
            basename = re.sub(r'#\d+', '', basefp)
            if (f.name, basename) in TWOWAY_EXCEPTIONS:
                rep.note('R04g exception %s %s: %s' % (f.name, basename, TWOWAY_EXCEPTIONS[(f.name, basename)]))
                continue
            probs = []
            blk0 = next((a for a in f.ancestors(x['id']) if a['k'] == 'CompoundStmt'), None)
            from_line = f.line(blk0) if blk0 else f.line(x)
            if not any(ln >= from_line and fp_ == basefp for ln, fp_ in pushes):
                probs.append('%s->parent is set but %s is never pushed onto a children list afterwards' % (basename, basename))
            bk = key(f, t['ch'][0])
            if bk is None or bk not in fresh:
                blk = next((a for a in f.ancestors(x['id']) if a['k'] == 'CompoundStmt'), None)
                det = [c for c in f.walk(blk['id']) if (c.get('callee') or '').endswith('removeFromParent') and args(f, c) and
                       f.fp(args(f, c)[0]) == basefp and f.line(c) <= f.line(x)] if blk else []
                if not det and bk is not None and bk not in fresh and not _is_param_fresh(f, bk):
                    probs.append('%s is an existing node but is not detached from its old parent (removeFromParent) before it is re-parented' % basename)
                elif not det and bk is None:
                    probs.append('%s is an existing node but is not detached from its old parent (removeFromParent) before it is re-parented' % basename)
            n += 1
            rep.add('R04g', f.name, 'two-way-link:%s@%d' % (basename, len([1 for o in rep.obl if o['rule'] == 'R04g' and o['function'] == f.name])),
                    not probs, f.where(x), 'child list updated%s' % ('' if (bk in fresh) else ', old link removed') if not probs else '; '.join(probs))
    rep.require_count('R04g', 'parent assignments in two-way trees', n, 9)


def _is_param_fresh(f, bk):
    """locals that are not created by `new` here but are scratch / new nodes by contract: none today"""
    return False


def _stores(f, root):
    out = []
    for y in f.walk(root):
        t = r = None
        if y['k'] == 'BinaryOperator' and y.get('op') == '=':
            t, r = y['ch']
        elif y['k'] == 'CXXOperatorCallExpr' and y.get('oop') == '=' and len(y['ch']) == 2:
            t, r = y['ch']
        if t is not None:
            out.append((f.fp(t), f.fp(r), y))
    return out


def _contains(hay, needle):
    i = hay.find(needle)
    while i >= 0:
        before = hay[i - 1] if i else '('
        after = hay[i + len(needle)] if i + len(needle) < len(hay) else ')'
        if not (before.isalnum() or before in '_#') and not (after.isalnum() or after in '_#'):
            return True
        i = hay.find(needle, i + 1)
    return False


def r04h(rep, F, functions=None):
    rep.rule('R04h', 'selected item and compared cost agree: where if (isCostBetterThan(cost-of(X), B)) { SEL = X; ... } replaces a selected node '
                     'SEL by the candidate X, the bound B is the cost of the node being replaced (cost-of(SEL), same accessor) or a running '
                     'cost that the same branch re-assigns to cost-of(X) / cost-of(SEL).  Comparing against any other quantity (e.g. the '
                     'incumbent that an earlier statement already lowered) lets the reported path and the reported cost belong to '
                     'different nodes')
    n = 0
    for f in (functions or F.functions):
        if not f.body or '/planners/' not in f.file or not f.file.endswith('.cpp'):
            continue
        for i in [x for x in f.walk() if x['k'] == 'IfStmt']:
            at = []
            atoms(f, i['cond'], True, at, False)
            for (an, pol, disj) in at:
                if an.get('callee') not in BETTER or not pol:
                    continue
                a = args(f, an)
                A, B = f.fp(a[0]), f.fp(a[1])
                sts = _stores(f, i['then'])
                for (S, X, y) in sts:
                    xs = f.strip(y['ch'][1])
                    if xs is None or X == A or not _contains(A, X) or xs['k'] in ('IntegerLiteral', 'CXXBoolLiteralExpr', 'FloatingLiteral'):
                        continue
                    if len(X) < 3 or S == B:
                        continue
                    n += 1
                    AS = A.replace(X, S)
                    ok = B == AS or any(t == B and r in (A, AS) for (t, r, _) in sts)
                    rep.add('R04h', f.name, 'select[%s:=%s]' % (nofp(S), nofp(X)), ok, f.where(an),
                            'candidate cost %s is compared with %s' % (nofp(A), 'the cost of the replaced item' if B == AS else 'a running cost updated in the same branch')
                            if ok else '%s replaces %s when %s is better than %s, which is neither the cost of %s nor a running cost updated with it: '
                            'the selected node and the cost it is reported with can diverge' % (nofp(X), nofp(S), nofp(A), nofp(B), nofp(S)))
    rep.require_count('R04h', 'cost-guarded selections', n, 5)


# ---------------------------------------------------------------------------------------------------------------
# R04i: provenance of the edge costs stored in the (forward) search trees
EDGE_SINKS = {  # callee suffix -> index of the edge-cost argument
    'aitstar::Vertex::setForwardParent': 1, 'eitstar::Vertex::setEdgeCost': 0,
    'BITstar::addEdge': 1, 'BITstar::replaceParent': 1, 'BITstar::Vertex::addParent': 1,
    'eitstar::State::setCurrentCostToCome': 0, 'aitstar::Vertex::setCostToComeFromStart': 0,
    'FMT::Motion::setCost': 0, 'BFMT::BiDirMotion::setCost': 0,
}
COMBINE = ('::combineCosts', 'EITstar::combine', '::betterCost')
TREE_GETTERS = ('::getCostToComeFromStart', '::getCurrentCostToCome', '::getCost', '::getEdgeCost', '::getEdgeInCost', '::getForwardEdgeCost')
ESTIMATES = re.compile(r'Heuristic|BestEstimate|costToGo|CostToGo|LowerBound|lowerBound|stateCost|::distance$')


def _all_defs(f, F=None):
    out = {}
    for n in f.walk():
        if n['k'] == 'DeclStmt':
            for d in n.get('decls', []):
                out.setdefault('%s#%d' % (d['name'], d['did']), [])
                if d.get('init'):
                    out['%s#%d' % (d['name'], d['did'])].append(d['init'])
        elif (n['k'] == 'BinaryOperator' and n.get('op') == '=') or (n['k'] == 'CXXOperatorCallExpr' and n.get('oop') == '=' and len(n['ch']) == 2):
            t = f.strip(n['ch'][0])
            if t is None:
                continue
            if t['k'] == 'DeclRefExpr':
                out.setdefault('%s#%d' % (t.get('name'), t.get('did')), []).append(n['ch'][1])
            elif (t['k'] == 'CXXOperatorCallExpr' and t.get('oop') == '[]') or t['k'] == 'ArraySubscriptExpr':
                b = f.strip(t['ch'][0])
                if b is not None and b['k'] == 'DeclRefExpr':
                    out.setdefault('%s#%d[]' % (b.get('name'), b.get('did')), []).append(n['ch'][1])
        elif n['k'] in ('CXXMemberCallExpr', 'CallExpr') and F is not None:
            # a local handed to a repo function by non-const reference is (also) defined by that function's stores to the parameter
            gs = [g for g in F.by_name.get(n.get('callee') or '', []) if g.body]
            if gs:
                for i, a in enumerate(args(f, n)):
                    an = f.strip(a)
                    if an is not None and an['k'] == 'DeclRefExpr' and an.get('dk') != 'Parm' and i < len(gs[0].params):
                        ty = gs[0].params[i].get('ty') or ''
                        if ty.endswith('&') and not ty.startswith('const '):
                            out.setdefault('%s#%d' % (an.get('name'), an.get('did')), []).append(('outparam', gs[0], i))
    return out


def cost_origins(F, f, nid, defs, seen, depth=0):
    """set of leaf origins of a Cost-valued expression: 'true' (OptimizationObjective::motionCost), 'tree' (a cost already stored in the
    tree), 'const' (identity / infinite), 'param:<i>', 'estimate:<callee>', 'other:<what>'"""
    n = f.strip(nid)
    if n is None or depth > 14:
        return {'other:?'}
    k = n['k']
    if k in ('CXXConstructExpr', 'CXXTemporaryObjectExpr', 'CXXFunctionalCastExpr', 'CXXBindTemporaryExpr') and len(n['ch']) == 1:
        return cost_origins(F, f, n['ch'][0], defs, seen, depth + 1)
    if k == 'CXXDefaultArgExpr' or (k in ('CXXConstructExpr', 'CXXTemporaryObjectExpr') and not n['ch']):
        return {'const'}
    if k == 'ConditionalOperator':
        return cost_origins(F, f, n['ch'][1], defs, seen, depth + 1) | cost_origins(F, f, n['ch'][2], defs, seen, depth + 1)
    if k == 'DeclRefExpr':
        kk = '%s#%d' % (n.get('name'), n.get('did'))
        if n.get('dk') == 'Parm':
            idx = [i for i, p in enumerate(f.params) if p['did'] == n.get('did')]
            return {'param:%d' % idx[0]} if idx else {'other:param'}
        if (f.key, kk) in seen:
            return set()
        seen = seen | {(f.key, kk)}
        ds = defs.get(kk, [])
        if not ds:
            return {'other:undefined local ' + n.get('name', '?')}
        out = set()
        for d in ds:
            if isinstance(d, tuple):
                g, i = d[1], d[2]
                gk = '%s#%d' % (g.params[i]['name'], g.params[i]['did'])
                if (g.key, gk) in seen:
                    continue
                gd = _all_defs(g, F)
                for dd in gd.get(gk, []):
                    if not isinstance(dd, tuple):
                        o = cost_origins(F, g, dd, gd, seen | {(g.key, gk)}, depth + 1)
                        out |= {x if not x.startswith('param:') else 'other:parameter of ' + g.name.split('::')[-1] for x in o}
                continue
            out |= cost_origins(F, f, d, defs, seen, depth + 1)
        return out
    if (k == 'CXXOperatorCallExpr' and n.get('oop') == '[]') or k == 'ArraySubscriptExpr':
        b = f.strip(n['ch'][0])
        if b is not None and b['k'] == 'DeclRefExpr':
            kk = '%s#%d[]' % (b.get('name'), b.get('did'))
            if (f.key, kk) in seen:
                return set()
            out = set()
            for d in defs.get(kk, []):
                out |= cost_origins(F, f, d, defs, seen | {(f.key, kk)}, depth + 1)
            return out or {'other:array never filled'}
        return {'other:subscript'}
    if k == 'MemberExpr':
        if n.get('name') in ('cost', 'incCost', 'costToComeFromStart_', 'edgeCostFromForwardParent_', 'edgeCost_', 'currentCostToCome_', 'accCost_'):
            return {'tree'}
        return {'other:field ' + str(n.get('name'))}
    if k in ('CXXMemberCallExpr', 'CallExpr'):
        cal = n.get('callee') or ''
        if cal.endswith('OptimizationObjective::motionCost'):
            return {'true'}
        if any(cal.endswith(c) for c in COMBINE):
            out = set()
            for a in args(f, n):
                an = f.strip(a)
                if an is not None and (an.get('ty') or '').replace('const ', '').strip(' &').endswith('Cost'):
                    out |= cost_origins(F, f, a, defs, seen, depth + 1)
            return out or {'other:combine of nothing'}
        if cal.endswith('::identityCost') or cal.endswith('::infiniteCost'):
            return {'const'}
        if any(cal.endswith(g) for g in TREE_GETTERS):
            return {'tree'}
        if ESTIMATES.search(cal):
            return {'estimate:' + cal.split('::')[-1]}
        # a repo wrapper: the origins of what it returns
        out = set()
        for g in F.by_name.get(cal, []):
            if not g.body or (g.key, 'ret') in seen:
                continue
            gd = _all_defs(g, F)
            for r in g.walk():
                if r['k'] == 'ReturnStmt' and r['ch']:
                    o = cost_origins(F, g, r['ch'][0], gd, seen | {(g.key, 'ret')}, depth + 1)
                    out |= {x for x in o if not x.startswith('param:')} | {'other:wrapper parameter' for x in o if x.startswith('param:')}
        return out or {'other:' + cal.split('::')[-1]}
    return {'other:' + k}


def r04i(rep, F):
    rep.rule('R04i', 'edge costs stored in the search trees are true motion costs: the value given to an edge-cost sink (AIT* setForwardParent, '
                     'EIT* setEdgeCost, BIT* addEdge / replaceParent / addParent, and every X->incCost = ... of the RRT*-family nodes) is, '
                     'through locals, arrays filled in the same function, combineCosts, wrappers resolved by their return statements and '
                     'pass-through parameters (whose call sites are then sinks themselves), the result of OptimizationObjective::motionCost '
                     'or a cost already stored in the tree.  A heuristic / best-estimate / cost-to-go value at a sink is a violation: '
                     'it is admissible (never worse than the truth) and would be reported as the solution cost')
    recs = {name for name, rs in F.records.items() if {'parent', 'cost', 'incCost'} <= {fl['name'] for fl in rs[0].get('fields', [])}}
    crecs = {name for name, rs in F.records.items() if {'parent', 'cost'} <= {fl['name'] for fl in rs[0].get('fields', [])}}
    n = 0
    for f in F.functions:
        if not f.body or '/planners/' not in f.file:
            continue
        defs = None
        sinks = []
        for x in f.walk():
            if x['k'] in ('CXXMemberCallExpr', 'CallExpr'):
                for suf, idx in EDGE_SINKS.items():
                    if (x.get('callee') or '').endswith(suf) and len(args(f, x)) > idx:
                        sinks.append((suf.split('::')[-1], args(f, x)[idx], x))
            elif (x['k'] == 'BinaryOperator' and x.get('op') == '=') or (x['k'] == 'CXXOperatorCallExpr' and x.get('oop') == '=' and len(x['ch']) == 2):
                t = f.strip(x['ch'][0])
                if t is not None and t['k'] == 'MemberExpr' and t.get('name') == 'incCost' and (t.get('q') or '').rsplit('::', 1)[0] in recs:
                    sinks.append(('incCost', x['ch'][1], x))
                elif t is not None and t['k'] == 'MemberExpr' and t.get('name') == 'cost' and (t.get('q') or '').rsplit('::', 1)[0] in crecs:
                    sinks.append(('cost', x['ch'][1], x))
                elif t is not None and t['k'] == 'MemberExpr' and t.get('name') == 'accCost_':
                    sinks.append(('accCost_', x['ch'][1], x))
        for (what, v, x) in sinks:
            if defs is None:
                defs = _all_defs(f, F)
            o = cost_origins(F, f, v, defs, frozenset())
            role = 'edge-cost:%s#%d' % (what, len([1 for ob in rep.obl if ob['rule'] == 'R04i' and ob['function'] == f.name]))
            passthrough = {y for y in o if y.startswith('param:')}
            if passthrough and not any(f.name.endswith(s) for s in EDGE_SINKS):
                o = (o - passthrough) | {'other:parameter of a function that is not itself a sink'}
            bad = sorted(y for y in o if y.startswith('estimate:'))
            other = sorted(y for y in o if y.startswith('other:'))
            if bad:
                n += 1
                rep.add('R04i', f.name, role, False, f.where(x), 'the edge cost stored here comes from %s, an estimate, not from motionCost: the '
                        'tree (and the reported solution) carries a cost that can be better than the true cost of the path' % ', '.join(bad))
            elif other:
                rep.undecided('R04i', f.name, role, 'edge-cost provenance not resolved (%s)' % ', '.join(other))
            else:
                n += 1
                rep.add('R04i', f.name, role, True, f.where(x), 'derived from ' + ', '.join(sorted(o)))
    rep.require_count('R04i', 'edge-cost sinks with resolved provenance', n, 38)


def r04j(rep, F):
    rep.rule('R04j', 'a running cost and the item it belongs to move together: where a planner function assigns a cost-typed variable ACC and a '
                     'node-typed variable SEL (pointer / shared pointer to a Motion, Vertex or State) side by side in at least two blocks -- '
                     'the (best node, its cost) idiom -- every block that assigns ACC also assigns one of the SELs it is paired with.  A '
                     'branch that updates the cost alone leaves the old node to be reported with the new cost')
    n = 0
    for f in F.functions:
        if not f.body or '/planners/' not in f.file or not f.file.endswith('.cpp'):
            continue
        blocks = []
        # a block = the statements of a compound statement, or the single unbraced statement that is the body of an if / else / loop
        cands = [(x, x['ch']) for x in f.walk() if x['k'] == 'CompoundStmt']
        for x in f.walk():
            for slot in ('then', 'else', 'body'):
                b = x.get(slot)
                if b and x['k'] in ('IfStmt', 'WhileStmt', 'ForStmt', 'DoStmt', 'CXXForRangeStmt') and (f.nodes.get(b) or {}).get('k') != 'CompoundStmt':
                    cands.append((f.nodes[b], [b]))
        for blk, stmts in cands:
            tg = {}
            for cid in stmts:
                y = f.strip(cid)
                if y is None:
                    continue
                t = None
                if y['k'] == 'BinaryOperator' and y.get('op') == '=':
                    t = f.strip(y['ch'][0])
                elif y['k'] == 'CXXOperatorCallExpr' and y.get('oop') == '=' and len(y['ch']) == 2:
                    t = f.strip(y['ch'][0])
                elif y['k'] == 'DeclStmt':
                    # an initialised declaration is the first assignment of the variable
                    for d in y.get('decls', []):
                        if d.get('init'):
                            tg['%s#%d' % (d['name'], d['did'])] = (d.get('ty') or '')
                if t is not None and (t['k'] == 'DeclRefExpr' or (t['k'] == 'MemberExpr' and t['ch'] and (f.strip(t['ch'][0]) or {}).get('k') == 'CXXThisExpr')):
                    tg[f.fp(t['id'])] = (t.get('ty') or '')
            if tg:
                blocks.append((blk, tg))
        costs = {k for _, tg in blocks for k, ty in tg.items() if re.search(r'Cost$|^(const )?double$', ty)}
        items = {k for _, tg in blocks for k, ty in tg.items() if (re.search(r'Motion|Vertex|State|Path', ty) and ('*' in ty or 'shared_ptr' in ty or 'Ptr' in ty))
                 or ty.replace('const ', '').strip() in ('bool', '_Bool')}
        # running bounds: variables that some condition compares a candidate against (second argument of isCostBetterThan, right side of <)
        bounds = set()
        for x in f.walk():
            if x.get('callee') in BETTER and len(args(f, x)) == 2:
                b = f.strip(args(f, x)[1])
                if b is not None:
                    bounds.add(f.fp(b['id']))
            elif x['k'] == 'BinaryOperator' and x.get('op') == '<':
                b = f.strip(x['ch'][1])
                if b is not None:
                    bounds.add(f.fp(b['id']))
        for c in sorted(costs & bounds):
            partners = {i for i in items if len([1 for _, tg in blocks if c in tg and i in tg]) >= 2}
            if not partners:
                continue
            for blk, tg in blocks:
                if c not in tg:
                    continue
                if blk['k'] == 'DeclStmt' or (c.split('#')[0] + '#') in c and any(
                        y is not None and y['k'] == 'DeclStmt' and any('%s#%d' % (d['name'], d['did']) == c for d in y.get('decls', []))
                        for y in [f.strip(cid) for cid in (blk['ch'] if blk['k'] == 'CompoundStmt' else [blk['id']])]):
                    continue        # the declaring block only nominates partners
                n += 1
                # companions that are nodes / paths take precedence: a flag only stands in when the cost has no node companion
                strong = {p_ for p_ in partners if not any(ty2.replace('const ', '').strip() in ('bool', '_Bool')
                                                            for _, t2 in blocks for k2, ty2 in t2.items() if k2 == p_)}
                need = strong or partners
                ok = bool(need & set(tg))
                rep.add('R04j', f.name, 'cost-with-item[%s]#%d' % (nofp(c), f.line(blk)), ok, f.where(blk),
                        '%s assigned together with %s' % (nofp(c), ', '.join(sorted(nofp(p) for p in need & set(tg)))) if ok else
                        '%s is assigned in this block without %s, which accompanies it in the other %d blocks: the reported node and the reported '
                        'cost come apart' % (nofp(c), ' / '.join(sorted(nofp(p) for p in need)), len([1 for _, t2 in blocks if c in t2]) - 1))
    rep.require_count('R04j', 'cost updates paired with their item', n, 8)


def _cost_origins(f, nid, guards=(), depth=0, subst=None):
    """leaves a cost expression is computed from: [('mc', a_fp, b_fp, guards) | ('other', fp, guards)];
    looks through locals (every definition, with the if-conditions that guard it) and vector elements stored in the function"""
    subst = subst or {}

    def sub(fp):
        for a, b in subst.items():
            fp = fp.replace(a, b)
        return fp
    n = f.strip(nid)
    if n is None or depth > 5:
        return [('other', '?', guards)]
    if n.get('callee', '').endswith('::motionCost') and len(args(f, n)) == 2:
        a = args(f, n)
        return [('mc', sub(f.fp(a[0])), sub(f.fp(a[1])), guards)]
    if n['k'] == 'CXXConstructExpr' and len(n['ch']) == 1:
        return _cost_origins(f, n['ch'][0], guards, depth, subst)

    def enclosing_guards(x):
        gs = []
        cur = x['id']
        while cur in f.parent:
            p_ = f.nodes[f.parent[cur]]
            if p_['k'] == 'IfStmt':
                if p_.get('then') == cur:
                    gs.append((f.fp(p_['cond']), True))
                elif p_.get('else') == cur:
                    gs.append((f.fp(p_['cond']), False))
            cur = p_['id']
        return tuple(gs)
    if n['k'] == 'DeclRefExpr' and n.get('dk') == 'Local':
        k = '%s#%d' % (n['name'], n['did'])
        out = []
        for x in f.walk():
            if x['k'] == 'DeclStmt':
                for d in x.get('decls', []):
                    if '%s#%d' % (d['name'], d['did']) == k and d.get('init'):
                        ini = f.strip(d['init'])
                        if ini is not None and ini['k'] == 'CXXConstructExpr' and not ini['ch']:
                            continue
                        out += _cost_origins(f, d['init'], guards + enclosing_guards(x), depth + 1, subst)
            elif ((x['k'] == 'BinaryOperator' and x.get('op') == '=') or (x['k'] == 'CXXOperatorCallExpr' and x.get('oop') == '=' and len(x['ch']) == 2)) \
                    and key(f, x['ch'][0]) == k:
                out += _cost_origins(f, x['ch'][1], guards + enclosing_guards(x), depth + 1, subst)
        return out or [('other', sub(f.fp(nid)), guards)]
    if n['k'] == 'CXXOperatorCallExpr' and n.get('oop') == '[]' and len(n['ch']) == 2 and key(f, n['ch'][0]):
        arr = key(f, n['ch'][0])
        idx = f.fp(n['ch'][1])
        out = []
        for x in f.walk():
            if (x['k'] == 'BinaryOperator' and x.get('op') == '=') or (x['k'] == 'CXXOperatorCallExpr' and x.get('oop') == '=' and len(x['ch']) == 2):
                t = f.strip(x['ch'][0])
                if t is not None and t['k'] == 'CXXOperatorCallExpr' and t.get('oop') == '[]' and len(t['ch']) == 2 and key(f, t['ch'][0]) == arr:
                    j = f.fp(t['ch'][1])
                    s2 = dict(subst)
                    if j != idx:
                        s2[j] = sub(idx)
                    out += _cost_origins(f, x['ch'][1], guards + enclosing_guards(x), depth + 1, s2)
        return out or [('other', sub(f.fp(nid)), guards)]
    return [('other', sub(f.fp(nid)), guards)]


def r04l(rep, F):
    rep.rule('R04l', 'orientation of stored edge costs: where a tree node X gets parent P and incremental cost I in one block (the sites of '
                     'R04f), every motionCost(a, b) that I can originate from -- through locals, every one of their definitions, and vector '
                     'elements stored in the same function with the index renamed -- is the cost of the motion P -> X (a = P->state, b = '
                     'X->state); the cost of the reverse motion X -> P is accepted only on a definition guarded by the objective\'s '
                     'isSymmetric() verdict.  With an asymmetric objective a reversed edge cost is propagated to every descendant by '
                     'updateChildCosts and the stored solution cost drops below the true cost of the path')
    recs = {name for name, rs in F.records.items() if {'parent', 'cost', 'incCost'} <= {fl['name'] for fl in rs[0].get('fields', [])}}
    n = 0
    for f in F.functions:
        if not f.body or '/planners/' not in f.file:
            continue
        symvars = set()
        for x in f.walk():
            if x['k'] == 'DeclStmt':
                for d in x.get('decls', []):
                    if d.get('init') and 'isSymmetric' in f.fp(d['init']):
                        symvars.add('%s#%d' % (d['name'], d['did']))
        for x in f.walk():
            if x['k'] != 'BinaryOperator' or x.get('op') != '=':
                continue
            t = f.strip(x['ch'][0])
            if t is None or t['k'] != 'MemberExpr' or t.get('name') != 'parent' or (t.get('q') or '').rsplit('::', 1)[0] not in recs:
                continue
            r = f.strip(x['ch'][1])
            if r is None or r['k'] in ('CXXNullPtrLiteralExpr', 'GNUNullExpr'):
                continue
            X, Pn = f.fp(t['ch'][0]), f.fp(x['ch'][1])
            blk = next((a for a in f.ancestors(x['id']) if a['k'] == 'CompoundStmt'), None)
            if blk is None:
                continue
            inc = None
            for cid in blk['ch']:                      # side by side: statements of the same block
                y = f.strip(cid)
                if y is None:
                    continue
                if (y['k'] == 'BinaryOperator' and y.get('op') == '=') or (y['k'] == 'CXXOperatorCallExpr' and y.get('oop') == '=' and len(y['ch']) == 2):
                    ty = f.strip(y['ch'][0])
                    if ty is not None and ty['k'] == 'MemberExpr' and ty.get('name') == 'incCost' and f.fp(ty['ch'][0]) == X:
                        inc = y
            if inc is None:
                continue
            n += 1
            role = 'edge-cost-orientation@%s#%d' % (re.sub(r'#\d+', '', X), len([1 for o in rep.obl if o['rule'] == 'R04l' and o['function'] == f.name]))
            leaves = _cost_origins(f, inc['ch'][1])
            bad = None
            fwd = rev = other = 0
            for lf in leaves:
                if lf[0] != 'mc':
                    other += 1
                    continue
                a, b, gs = lf[1], lf[2], lf[3]
                if (a, b) == (Pn + '.state', X + '.state'):
                    fwd += 1
                elif (a, b) == (X + '.state', Pn + '.state'):
                    sym = any(pol and (any(v in g for v in symvars) or 'isSymmetric' in g) and '!' not in g[:2] for g, pol in gs)
                    if sym:
                        rev += 1
                    else:
                        bad = 'the incremental cost stored for %s can be motionCost(%s, %s): the cost of the motion from the child to its ' \
                              'new parent, not guarded by isSymmetric()' % (nofp(X), nofp(a), nofp(b))
                else:
                    other += 1
            rep.add('R04l', f.name, role, bad is None, f.where(inc), bad or
                    '%d origin(s) are the cost of parent -> child, %d reversed under the symmetry guard, %d not followed' % (fwd, rev, other))
    rep.require_count('R04l', 'edge-cost stores next to a parent change', n, 4)


def _then_guards(f, nid):
    """conditions of the enclosing if statements whose then-branch contains the node, innermost first"""
    out = []
    cur = nid
    while cur in f.parent:
        p_ = f.nodes[f.parent[cur]]
        if p_['k'] == 'IfStmt' and p_.get('then') is not None and any(z['id'] == cur for z in f.walk(p_['then'])):
            out.append(p_['cond'])
        cur = p_['id']
    return out


def _expand(f, nid, depth=0):
    """fingerprint of a cost expression with single-definition locals replaced by their initialisers"""
    fp = f.fp(nid)
    if depth > 3:
        return fp
    for x in f.walk(nid):
        if x['k'] == 'DeclRefExpr' and x.get('dk') == 'Local' and re.search(r'Cost', x.get('ty') or ''):
            k = '%s#%d' % (x['name'], x['did'])
            defs = [d['init'] for y in f.walk() if y['k'] == 'DeclStmt' for d in y.get('decls', []) if '%s#%d' % (d['name'], d['did']) == k and d.get('init')]
            if len(defs) == 1:
                fp = fp.replace(k, '[' + k + ':=' + _expand(f, defs[0], depth + 1) + ']')
    return fp


def r04m(rep, F):
    rep.rule('R04m', 'rewiring is decided on the true edge cost: in the forward searches of BIT* / ABIT*, AIT* and EIT* the statement that '
                     'links a vertex to a (new) parent with edge cost C -- addEdge(edge, C), setForwardParent(parent, C), setEdgeCost(C) + '
                     'setCurrentCostToCome(T) -- lies in the then-branch of a comparison isCostBetterThan(L, R) in which R is the child\'s '
                     'current cost-to-come and L combines the parent\'s current cost-to-come with that same C (locals expanded to their '
                     'definitions).  A guard built from the heuristic edge cost admits edges that make the vertex -- and the goal, hence '
                     'the reported best cost -- worse')
    G_ = 'ompl::geometric::'
    SITES = [
        (G_ + 'BITstar::iterate', G_ + 'BITstar::addEdge', 1, 'getCost', lambda f, c: (_pfp(f, args(f, c)[0]) + '.first', _pfp(f, args(f, c)[0]) + '.second')),
        (G_ + 'AITstar::iterateForwardSearch', G_ + 'aitstar::Vertex::setForwardParent', 1, 'getCostToComeFromStart',
         lambda f, c: (_pfp(f, args(f, c)[0]), _pfp(f, c['ch'][0]))),
        (G_ + 'EITstar::iterateForwardSearch', G_ + 'eitstar::Vertex::setEdgeCost', 0, 'getCurrentCostToCome', None),
    ]
    n = 0
    for fname, callee, ci, acc, pc in SITES:
        fs = [x for x in F.by_name.get(fname, []) if x.body]
        if not fs:
            raise AnalysisBroken('R04m: %s vanished' % fname)
        f = fs[0]
        sites = [c for c in f.walk() if c.get('callee') == callee]
        if not sites:
            raise AnalysisBroken('R04m: %s no longer calls %s' % (fname, callee))
        for c in sites:
            C = key(f, args(f, c)[ci])
            if C is None:
                raise AnalysisBroken('R04m: edge cost argument of %s is not a variable' % callee)
            n += 1
            if pc is not None:
                par, chi = pc(f, c)
            else:
                # EIT*: the forward vertices were obtained from edge.source / edge.target
                ev = [key(f, args(f, x)[0]) for x in f.walk() if x.get('callee') == G_ + 'EITstar::isValid']
                e = ev[0] if ev else None
                par, chi = (e + '.source', e + '.target') if e else (None, None)
            ok = False
            seen = []
            for g in _then_guards(f, c['id']):
                for b in f.walk(g):
                    if b.get('callee') in BETTER and len(args(f, b)) == 2:
                        L, R = _expand(f, args(f, b)[0]), f.fp(args(f, b)[1])
                        seen.append((nofp(L)[:160], nofp(R)[:80]))
                        r_ok = acc in R and chi is not None and chi in R
                        l_ok = C in L and acc in L and par is not None and par in L and 'euristic' not in L.split(C)[0][-60:]
                        if r_ok and l_ok:
                            ok = True
            rep.add('R04m', f.name, 'rewire-guard-uses-stored-cost[%s]' % nofp(C), ok, f.where(c),
                    'guarded by better(parent cost-to-come + %s, child cost-to-come)' % nofp(C) if ok else
                    'no enclosing comparison has the child\'s current cost-to-come on the right and parent cost-to-come combined with the '
                    'stored edge cost %s on the left (comparisons found: %s): the link can make the vertex worse' % (nofp(C), seen[:3]))
    rep.require_count('R04m', 'rewiring sites of the informed trees', n, 3)


def _pfp(f, nid):
    """fingerprint of a vertex expression, looking through shared_ptr::operator-> and implicit conversions"""
    n_ = f.strip(nid)
    for _ in range(5):
        if n_ is None:
            return '?'
        if n_['k'] == 'CXXOperatorCallExpr' and n_.get('oop') in ('->', '*') and n_['ch']:
            n_ = f.strip(n_['ch'][0])
            continue
        if n_['k'] in ('CXXConstructExpr', 'ImplicitCastExpr') and len(n_['ch']) == 1:
            n_ = f.strip(n_['ch'][0])
            continue
        break
    vs = [x for x in f.walk(n_['id']) if x['k'] == 'DeclRefExpr' and x.get('dk') in ('Local', 'Parm')]
    return f.fp(n_['id']) if n_['k'] in ('DeclRefExpr', 'MemberExpr') or not vs else '%s#%d' % (vs[0]['name'], vs[0]['did'])


def r04n(rep, F, rule='R04n'):
    rep.rule(rule, 'registration round trip of ProblemDefinition, interpreted across addSolutionPath(path, approximate, difference, name), '
                   'PlannerSolution::setApproximate, PlannerSolutionSet::add / std::sort with PlannerSolution::operator<, and the query '
                   'functions (objects are abstract records; fresh solutions start exact, difference -1, not optimized): after one '
                   'registration hasSolution() is true, hasApproximateSolution() is the registered flag, getSolutionDifference() is the '
                   'registered difference for an approximate solution, hasExactSolution() is the negated flag and getSolutionPath() is the '
                   'registered path; after an exact and an approximate registration in either order the queries answer from the exact one; '
                   'after clearSolutionPaths() nothing is reported')
    from engine import obj
    from fractions import Fraction
    PDn = 'ompl::base::ProblemDefinition::'

    def construct(it, n, av):
        ty = n.get('ty') or ''
        if 'PlannerSolution' in ty and 'vector' not in ty and 'Set' not in ty:
            if len(av) == 1 and isinstance(av[0], obj.Obj) and 'PlannerSolution' in (n.get('csig') or ''):
                return obj.Obj(av[0])               # copy / move construction
            return obj.Obj(index_=-1, path_=av[0] if av else None, approximate_=False, difference_=Fraction(-1), optimized_=False,
                           cost_=('cost', 0), length_=(av[0] or {}).get('len', 0) if av and isinstance(av[0], dict) else 0, opt_=None, plannerName_=('str', ''))
        return NotImplemented

    def default(ty):
        if 'PathPtr' in ty or 'shared_ptr' in ty:
            return None
        return None

    def call(it, n, env):
        c = n.get('callee') or ''
        if c.endswith('::c_str') or c == 'ompl::msg::log':
            return ('opaque',)
        if c.endswith('basic_string::operator=') or 'basic_string' in c:
            return ('str', '?')
        if c.endswith('Path::length'):
            o = it.ev(n['ch'][0], env)
            return o.get('len', 0) if isinstance(o, dict) else 0
        return NotImplemented

    def sort(it, n, env):
        vec = it.ev(args(it.fn, n)[0], env)
        # begin()/end() of the same vector: find the list by identity
        lst = None
        for v in [it.this] + list(env.values()):
            if isinstance(v, dict):
                for vv in v.values():
                    if isinstance(vv, list) and vec == ('iter', id(vv), 'begin'):
                        lst = vv
        if lst is None:
            raise AnalysisBroken('%s: std::sort over an unrecognised range' % rule)
        less = [g for g in F.by_name.get('ompl::base::PlannerSolution::operator<', []) if g.body][0]

        def lt(a, b):
            sub = obj.ObjInterp(F, less, this=a, depth=it.depth + 1, hooks=it.hooks)
            r, _ = sub.run({'%s#%d' % (less.params[0]['name'], less.params[0]['did']): b})
            return bool(r)
        out = []
        for x in lst:                       # stable insertion sort with the interpreted order
            i = len(out)
            while i > 0 and lt(x, out[i - 1]):
                i -= 1
            out.insert(i, x)
        lst[:] = out
        return None
    hooks = {'construct': construct, 'default': default, 'call': call, 'sort': sort}

    def q(pd, name, *av):
        fs = [g for g in F.by_name.get(PDn + name, []) if g.body and len(g.params) == len(av)]
        if not fs:
            raise AnalysisBroken('%s: ProblemDefinition::%s vanished' % (rule, name))
        it = obj.ObjInterp(F, fs[0], this=pd, hooks=hooks)
        r, _ = it.run({'%s#%d' % (p_['name'], p_['did']): v for p_, v in zip(fs[0].params, av)})
        return r

    def fresh():
        return obj.Obj(solutions_=obj.Ref(solutions_=[], lock_=('mutex',)))
    n = 0
    bad = None
    for approx in (False, True):
        pd = fresh()
        path = obj.Ref(len=5)
        q(pd, 'addSolutionPath', path, approx, Fraction(3, 2), ('str', 'p'))
        got = {'hasSolution': q(pd, 'hasSolution'), 'hasApproximateSolution': q(pd, 'hasApproximateSolution'),
               'hasExactSolution': q(pd, 'hasExactSolution'), 'getSolutionPath': q(pd, 'getSolutionPath'), 'getSolutionCount': q(pd, 'getSolutionCount')}
        want = {'hasSolution': True, 'hasApproximateSolution': approx, 'hasExactSolution': not approx, 'getSolutionPath': path, 'getSolutionCount': 1}
        if approx:
            got['getSolutionDifference'] = q(pd, 'getSolutionDifference')
            want['getSolutionDifference'] = Fraction(3, 2)
        for k_ in want:
            if not (got[k_] is want[k_] or got[k_] == want[k_]) and bad is None:
                bad = 'after addSolutionPath(path, approximate=%s, difference=3/2) %s() answers %s' % (approx, k_, 'another path' if k_ == 'getSolutionPath' else got[k_])
    n += 1
    rep.add(rule, PDn + 'addSolutionPath', 'single-registration-round-trip', bad is None, '', bad or 'the queries answer what was registered (exact and approximate)')
    bad = None
    for order in ((False, True), (True, False)):
        pd = fresh()
        paths_ = {}
        for approx in order:
            paths_[approx] = obj.Ref(len=7 if not approx else 2)          # the approximate path is the shorter one: it must still rank second
            q(pd, 'addSolutionPath', paths_[approx], approx, Fraction(1, 2), ('str', 'p'))
        if q(pd, 'hasApproximateSolution') is not False or q(pd, 'getSolutionPath') is not paths_[False] or q(pd, 'hasExactSolution') is not True:
            bad = bad or 'after registering %s the top solution is not the exact one' % (' then '.join('approximate' if a else 'exact' for a in order))
        q(pd, 'clearSolutionPaths')
        if q(pd, 'hasSolution') is not False or q(pd, 'getSolutionPath') is not None or q(pd, 'hasApproximateSolution') is not False:
            bad = bad or 'after clearSolutionPaths() a solution is still reported'
    n += 1
    rep.add(rule, PDn + 'addSolutionPath', 'exact-before-approximate-and-clear', bad is None, '', bad or 'exact ranks first in both orders; clear forgets')
    rep.require_count(rule, 'registration round trips', n, 2)


def r04o(rep, F):
    rep.rule('R04o', 'the cost algebra the "true cost" is defined by, interpreted over an abstract one-dimensional space (states are '
                     'rationals, interpolation is linear, distance |a - b|, state cost c(x) = x^2 + 1, segment counts 1..5, motions 0 -> 2 '
                     'and 1 -> -3): PathLengthOptimizationObjective::motionCost is the distance and its heuristic / best estimate equal '
                     'it (admissible); StateCostIntegralObjective::motionCost with interpolation is the trapezoid sum over the nd + 1 '
                     'subdivision points and without interpolation (and as best estimate) the trapezoid of the two end points; '
                     'MinimaxObjective::motionCost is the worst state cost over the subdivision points 1..nd and its combineCosts is the '
                     'worse of the two; the base combineCosts adds, identityCost is 0, the base heuristics return the identity')
    from engine import obj
    from fractions import Fraction as Q
    Bo = 'ompl::base::'

    def cst(x):
        return x * x + 1

    def run(qname, nd, interp, *av):
        fs = [g for g in F.by_name.get(qname, []) if g.body and len(g.params) == len(av)]
        if not fs:
            raise AnalysisBroken('R04o: %s vanished' % qname)
        f = fs[0]

        def call(it, n, env):
            c = n.get('callee') or ''
            short = c.split('::')[-1]
            a = args(it.fn, n) if n['k'] == 'CXXMemberCallExpr' else n['ch']
            if short == 'value' and 'Cost' in c:
                return it.ev(n['ch'][0], env)
            if short == 'stateCost':
                return cst(it.ev(a[0], env))
            if short == 'identityCost':
                return Q(0)
            if short == 'infiniteCost':
                return float('inf')
            if short == 'isCostBetterThan' and len(a) == 2:
                return it.ev(a[0], env) < it.ev(a[1], env)
            if short == 'getStateSpace':
                return ('space',)
            if short == 'validSegmentCount':
                return nd
            if short in ('cloneState',):
                return it.ev(a[0], env)
            if short == 'allocState':
                return ('scratch',)
            if short == 'freeState':
                return None
            if short == 'distance' and len(a) == 2:
                return abs(it.ev(a[0], env) - it.ev(a[1], env))
            if short == 'interpolate' and len(a) == 4:
                x, y, t = it.ev(a[0], env), it.ev(a[1], env), it.ev(a[2], env)
                k_ = it.lkey(it.fn.strip(a[3]))
                if k_ is None:
                    raise AnalysisBroken('R04o: interpolation into a non-local state')
                env[k_] = x + Q(t) * (y - x)
                return None
            return NotImplemented

        def construct(it, n, av_):
            if 'Cost' in (n.get('ty') or '') and len(av_) == 1:
                return av_[0]
            return NotImplemented
        it = obj.ObjInterp(F, f, this=obj.Ref(si_=('si',), interpolateMotionCost_=interp, threshold_=Q(0)), hooks={'call': call, 'construct': construct})
        r, _ = it.run({'%s#%d' % (p_['name'], p_['did']): v for p_, v in zip(f.params, av)})
        return r

    def pts(a_, b_, nd):
        return [a_ + Q(j, nd) * (b_ - a_) for j in range(nd + 1)]
    motions = ((Q(0), Q(2)), (Q(1), Q(-3)))
    n = 0
    # path length
    bad = None
    for a_, b_ in motions:
        mc = run(Bo + 'PathLengthOptimizationObjective::motionCost', 3, False, a_, b_)
        if mc != abs(a_ - b_):
            bad = bad or 'motionCost(%s, %s) = %s, the distance is %s' % (a_, b_, mc, abs(a_ - b_))
        for hn in ('motionCostHeuristic', 'motionCostBestEstimate'):
            h = run(Bo + 'PathLengthOptimizationObjective::' + hn, 3, False, a_, b_)
            if h != abs(a_ - b_):
                bad = bad or '%s(%s, %s) = %s, the motion cost is %s' % (hn, a_, b_, h, abs(a_ - b_))
    n += 1
    rep.add('R04o', Bo + 'PathLengthOptimizationObjective::motionCost', 'is-the-distance-and-heuristics-equal-it', bad is None, '', bad or 'motion cost = distance = heuristic = best estimate')
    # state cost integral
    bad = None
    for a_, b_ in motions:
        for nd in range(1, 6):
            got = run(Bo + 'StateCostIntegralObjective::motionCost', nd, True, a_, b_)
            p_ = pts(a_, b_, nd)
            want = sum(Q(1, 2) * abs(y - x) * (cst(x) + cst(y)) for x, y in zip(p_, p_[1:]))
            if got != want:
                bad = bad or 'interpolated motionCost(%s, %s) with %d segments = %s, the trapezoid sum over the subdivision is %s' % (a_, b_, nd, got, want)
        w2 = Q(1, 2) * abs(b_ - a_) * (cst(a_) + cst(b_))
        if run(Bo + 'StateCostIntegralObjective::motionCost', 4, False, a_, b_) != w2:
            bad = bad or 'motionCost without interpolation is not the trapezoid of the end points'
        if run(Bo + 'StateCostIntegralObjective::motionCostBestEstimate', 4, True, a_, b_) != w2:
            bad = bad or 'motionCostBestEstimate is not the trapezoid of the end points'
    n += 1
    rep.add('R04o', Bo + 'StateCostIntegralObjective::motionCost', 'trapezoid-sum', bad is None, '', bad or 'trapezoid sums on 10 abstract motions x segment counts')
    # minimax
    bad = None
    for a_, b_ in motions:
        for nd in range(1, 6):
            got = run(Bo + 'MinimaxObjective::motionCost', nd, False, a_, b_)
            want = max([Q(0)] + [cst(x) for x in pts(a_, b_, nd)[1:]])
            if got != want:
                bad = bad or 'motionCost(%s, %s) with %d segments = %s, the worst state cost over the subdivision points is %s' % (a_, b_, nd, got, want)
    for x, y in ((Q(1), Q(2)), (Q(2), Q(1)), (Q(3), Q(3))):
        if run(Bo + 'MinimaxObjective::combineCosts', 1, False, x, y) != max(x, y):
            bad = bad or 'combineCosts(%s, %s) is not the worse of the two' % (x, y)
    n += 1
    rep.add('R04o', Bo + 'MinimaxObjective::motionCost', 'worst-state-cost', bad is None, '', bad or 'maximum over the subdivision points; combine = max')
    # base algebra
    bad = None
    for x, y in ((Q(1), Q(2)), (Q(5, 2), Q(0))):
        if run(OO + 'combineCosts', 1, False, x, y) != x + y:
            bad = bad or 'combineCosts(%s, %s) is not the sum' % (x, y)
        if run(OO + 'betterCost', 1, False, x, y) != min(x, y):
            bad = bad or 'betterCost(%s, %s) is not the better of the two' % (x, y)
    for hn in ('motionCostHeuristic', 'motionCostBestEstimate') if False else ('motionCostHeuristic',):
        if run(OO + hn, 1, False, Q(0), Q(2)) != 0:
            bad = bad or 'the base %s is not the identity cost' % hn
    n += 1
    rep.add('R04o', OO + 'combineCosts', 'base-algebra', bad is None, '', bad or 'combine adds, betterCost selects the better, base heuristic = identity')
    rep.require_count('R04o', 'objective algebra obligations', n, 4)


def r04k(rep, F):
    rep.rule('R04k', 'cost recurrences stay within one cost field: where a tree-node record has several cost-like fields (cost / incCost, '
                     'costApx_ / costLb_, ...) a store X->F = E whose value reads, directly or through locals of the function, the cost '
                     'field G of another node reads G = F (the child\'s approximate cost is built from the parent\'s approximate cost, the '
                     'lower bound from the lower bound); incremental fields (incCost) are additive terms, not recurrences, and are skipped')
    n = 0
    costf = {}
    for name, rs in F.records.items():
        cf = {fl['name'] for fl in rs[0].get('fields', []) if re.search(r'[cC]ost', fl['name']) and re.search(r'Cost$|double$', fl['ty'])}
        if len(cf) >= 2 and any('parent' in fl['name'] for fl in rs[0].get('fields', [])):
            costf[name] = cf
    for f in F.functions:
        if not f.body or '/planners/' not in f.file:
            continue
        defs = None
        for x in f.walk():
            t = r = None
            if x['k'] == 'BinaryOperator' and x.get('op') == '=':
                t, r = f.strip(x['ch'][0]), x['ch'][1]
            elif x['k'] == 'CXXOperatorCallExpr' and x.get('oop') == '=' and len(x['ch']) == 2:
                t, r = f.strip(x['ch'][0]), x['ch'][1]
            if t is None or t['k'] != 'MemberExpr':
                continue
            rec = (t.get('q') or '').rsplit('::', 1)[0]
            if rec not in costf or t.get('name') not in costf[rec] or t['name'].startswith('inc'):
                continue
            X = f.fp(t['ch'][0])
            if defs is None:
                defs = _all_defs(f, F)
            # cost fields of other nodes read by the value, through single-level local definitions
            reads = []
            work, seen = [r], set()
            while work:
                e = work.pop()
                for z in f.walk(e):
                    if z['k'] == 'MemberExpr' and (z.get('q') or '').rsplit('::', 1)[0] == rec and z.get('name') in costf[rec] and z['ch']:
                        if f.fp(z['ch'][0]) != X:
                            reads.append(z)
                    elif z['k'] == 'DeclRefExpr' and z.get('dk') == 'Local':
                        k = '%s#%d' % (z['name'], z['did'])
                        if k not in seen:
                            seen.add(k)
                            work.extend(d for d in defs.get(k, []) if not isinstance(d, tuple))
            reads = [z for z in reads if not z['name'].startswith('inc')]
            if not reads:
                continue
            n += 1
            bad = [z for z in reads if z['name'] != t['name']]
            rep.add('R04k', f.name, 'recurrence[%s]#%d' % (t['name'], f.line(x)), not bad, f.where(x),
                    '%s built from the same field of the other node' % t['name'] if not bad else
                    '%s of %s is computed from %s of %s: two different cost notions are mixed, the stored cost is no longer the cost of the '
                    'stored path' % (t['name'], nofp(X), bad[0]['name'], nofp(f.fp(bad[0]['ch'][0]))))
    rep.require_count('R04k', 'cost recurrences', n, 7)


REGISTRY_QUERIES = ('hasSolution', 'hasExactSolution', 'hasApproximateSolution', 'hasOptimizedSolution', 'getSolutionCount',
                    'getSolutionDifference', 'getSolutionPath', 'getSolutions')
REGISTRY_MUTATORS = ('addSolutionPath', 'clearSolutionPaths')


class Snapshot(paths.Client):
    """auto = frozenset of (local key, 'fresh'|'stale') for locals holding the answer of a solution-registry query"""
    track = 'none'

    def __init__(self, fn, may_add):
        self.may_add = may_add
        self.bad = []
        self.snaps = {}
        for n in fn.walk():
            if n['k'] == 'DeclStmt':
                for d in n.get('decls', []):
                    if d.get('init') and self.query(fn, d['init']):
                        self.snaps['%s#%d' % (d['name'], d['did'])] = d['init']

    @staticmethod
    def query(fn, nid):
        return any((c.get('callee') or '').startswith('ompl::base::ProblemDefinition::') and c['callee'].split('::')[-1] in REGISTRY_QUERIES
                   for c in fn.walk(nid))

    def init(self, fn):
        return frozenset()

    def on_node(self, fn, node, auto, ctx):
        k = node['k']
        if k == 'DeclStmt':
            for d in node.get('decls', []):
                kk = '%s#%d' % (d['name'], d['did'])
                if kk in self.snaps:
                    auto = frozenset(x for x in auto if x[0] != kk) | {(kk, 'fresh')}
        elif k == 'BinaryOperator' and node.get('op') == '=' and key(fn, node['ch'][0]) in self.snaps:
            kk = key(fn, node['ch'][0])
            auto = frozenset(x for x in auto if x[0] != kk) | {(kk, 'fresh' if self.query(fn, node['ch'][1]) else 'other')}
        elif node.get('callee') and (node['callee'].split('::')[-1] in REGISTRY_MUTATORS and 'ProblemDefinition' in node['callee'] or
                                     node['callee'] in self.may_add):
            auto = frozenset((a, 'stale' if b == 'fresh' else b) for a, b in auto)
        elif k == 'DeclRefExpr':
            kk = '%s#%d' % (node.get('name'), node.get('did'))
            if (kk, 'stale') in auto:
                par = fn.nodes.get(fn.parent.get(node['id']))
                if not (par is not None and par['k'] == 'BinaryOperator' and par.get('op') == '=' and fn.strip(par['ch'][0]) is node):
                    self.bad.append((kk, node['id'], ctx.path()))
        return auto


def r04q(rep, F, must, may):
    rep.rule('R04q', 'answers of the solution registry are not used across a registration: a local that holds the result of a '
                     'ProblemDefinition query (hasSolution, hasExactSolution, hasApproximateSolution, hasOptimizedSolution, getSolutionCount, '
                     'getSolutionDifference, getSolutionPath, getSolutions) is not read on any path after a call that adds or clears solution '
                     'paths (addSolutionPath, clearSolutionPaths, or a planner function that may add one) inside a loop that does not take the answer '
                     'again (a straight-line "what did the registry say before I added my path" snapshot is deliberate and is not reported).  A '
                     'stale answer hoisted out of a loop that registers solutions makes every later iteration act on the registry as it was: '
                     'a worse solution found later overwrites the tracked best cost')
    n = 0
    for f in F.functions:
        if not f.body or not f.file.endswith('.cpp') or not ('/planners/' in f.file or '/multilevel/' in f.file):
            continue
        if not any((c.get('callee') or '').startswith('ompl::base::ProblemDefinition::') and c['callee'].split('::')[-1] in REGISTRY_QUERIES for c in f.walk()):
            continue
        n += 1
        cl = Snapshot(f, may)
        if not cl.snaps:
            rep.add('R04q', f.name, 'registry-answers-fresh', True, f.loc, 'every registry query is used where it is made (no snapshot)', nontrivial=False)
            continue
        paths.run_function(f, cl, F)
        # only the hoisting shape is an error: the answer was taken OUTSIDE a loop whose body both registers / clears solutions and reads it.
        # A straight-line "what did the registry say before I added my path" snapshot is deliberate and stays silent.
        def hoisted(kk, nid):
            for a in f.ancestors(nid):
                if a['k'] not in ('ForStmt', 'WhileStmt', 'DoStmt', 'CXXForRangeStmt'):
                    continue
                inside = list(f.walk(a['id']))
                mut = any(x.get('callee') and (x['callee'].split('::')[-1] in REGISTRY_MUTATORS and 'ProblemDefinition' in x['callee'] or x['callee'] in may)
                          for x in inside)
                retaken = any((x['k'] == 'DeclStmt' and any('%s#%d' % (d['name'], d['did']) == kk for d in x.get('decls', []))) or
                              (x['k'] == 'BinaryOperator' and x.get('op') == '=' and key(f, x['ch'][0]) == kk) for x in inside)
                if mut and not retaken:
                    return True
            return False
        cl.bad = [b for b in cl.bad if hoisted(b[0], b[1])]
        ok = not cl.bad
        rep.add('R04q', f.name, 'registry-answers-fresh', ok, f.where(cl.bad[0][1]) if cl.bad else f.loc,
                'snapshots %s are re-taken before every use that follows a registration' % sorted(nofp(k_) for k_ in cl.snaps) if ok else
                '%s holds an answer of the solution registry taken before a call that registers (or clears) solutions and is read afterwards: '
                'the decision is made on the registry as it was' % nofp(cl.bad[0][0]), cl.bad[0][2] if cl.bad else None)
    rep.require_count('R04q', 'functions that query the solution registry', n, 7)


B_ = 'ompl::base::'
SYMMETRIC_CALLS = ('distance', 'max', 'min', 'fmax', 'fmin', 'trapezoid', 'combineCosts', 'betterCost')


def _canon(f, nid, ren, defs, depth=0):
    """order-insensitive fingerprint of a side-effect-free expression; ren renames the two state parameters"""
    n = f.strip(nid)
    if n is None:
        return '?'
    k = n['k']
    if k == 'DeclRefExpr':
        kk = '%s#%d' % (n.get('name'), n.get('did'))
        if kk in ren:
            return ren[kk]
        if kk in defs and depth < 6:
            return _canon(f, defs[kk], ren, defs, depth + 1)
        return n.get('q') or n.get('name')
    if k in ('IntegerLiteral', 'FloatingLiteral', 'CXXBoolLiteralExpr'):
        return repr(n.get('v'))
    if k == 'CXXThisExpr':
        return 'this'
    if k == 'MemberExpr':
        return (_canon(f, n['ch'][0], ren, defs, depth) if n['ch'] else 'this') + '.' + str(n.get('name'))
    if k in ('BinaryOperator',):
        a, b = _canon(f, n['ch'][0], ren, defs, depth), _canon(f, n['ch'][1], ren, defs, depth)
        if n.get('op') in ('+', '*', '==', '!=', '&&', '||'):
            a, b = sorted((a, b))
        return '(%s %s %s)' % (a, n.get('op'), b)
    if k == 'UnaryOperator':
        return '(%s%s)' % (n.get('op'), _canon(f, n['ch'][0], ren, defs, depth))
    if n.get('callee') is not None or k in ('CXXConstructExpr', 'CXXTemporaryObjectExpr', 'CXXFunctionalCastExpr'):
        cs = [_canon(f, c, ren, defs, depth) for c in n['ch']]
        short = (n.get('callee') or n.get('ctor') or k).split('::')[-1]
        if short in SYMMETRIC_CALLS and len(cs) >= 2:
            head, tail = (cs[:1], cs[1:]) if n['k'] == 'CXXMemberCallExpr' else ([], cs)
            if short == 'trapezoid':
                tail = sorted(tail[:2]) + tail[2:]
            else:
                tail = sorted(tail)
            cs = head + tail
        return '%s(%s)' % (short, ','.join(cs))
    if k == 'ConditionalOperator':
        return '(%s ? %s : %s)' % tuple(_canon(f, c, ren, defs, depth) for c in n['ch'])
    return '%s(%s)' % (k, ','.join(_canon(f, c, ren, defs, depth) for c in n['ch'] if c))


def r04s(rep, F):
    rep.rule('R04s', 'an objective whose motion cost depends on the direction of the motion says so: for every OptimizationObjective subclass whose '
                     'motionCost(s1, s2) is straight-line code (declarations and one return), the returned expression is compared with itself '
                     'under exchange of the two state parameters, modulo commutative operators and callees that are symmetric by contract '
                     '(distance in a symmetric space, max / min, trapezoid in its two costs).  If the two differ, the class (or a base below '
                     'OptimizationObjective) overrides isSymmetric() to return false: the inherited answer speaks for the state space only, and '
                     'RRT* re-uses the cost of the opposite edge whenever the flag is true, so stored solution costs stop being path costs.  '
                     'Bodies with loops or branches are listed, not decided')
    n = 0
    for f in F.functions:
        if not f.body or not f.name.endswith('::motionCost') or len(f.params) != 2 or not (f.record or '').startswith('ompl::base::'):
            continue
        if f.record not in F.subclasses(B_ + 'OptimizationObjective'):
            continue
        body = f.nodes[f.body]
        stmts = [f.nodes[c] for c in body['ch'] if c]
        if any(x['k'] not in ('DeclStmt', 'ReturnStmt') for x in stmts) or [x['k'] for x in stmts].count('ReturnStmt') != 1:
            rep.undecided('R04s', f.name, 'direction-declared', 'motionCost has loops or branches: swap symmetry of the returned value is not decided syntactically')
            continue
        defs = {}
        for x in stmts:
            if x['k'] == 'DeclStmt':
                for d in x.get('decls', []):
                    if d.get('init'):
                        defs['%s#%d' % (d['name'], d['did'])] = d['init']
        ret = [x for x in stmts if x['k'] == 'ReturnStmt'][0]
        p1, p2 = ('%s#%d' % (f.params[0]['name'], f.params[0]['did'])), ('%s#%d' % (f.params[1]['name'], f.params[1]['did']))
        a = _canon(f, ret['ch'][0], {p1: 'A', p2: 'B'}, defs)
        b = _canon(f, ret['ch'][0], {p1: 'B', p2: 'A'}, defs)
        n += 1
        if a == b:
            rep.add('R04s', f.name, 'direction-declared', True, f.loc, 'the motion cost is symmetric under exchange of its two states')
            continue
        # asymmetric: some class from f.record up to (excluding) OptimizationObjective must override isSymmetric() with return false
        chain, work = [], [f.record]
        while work:
            r_ = work.pop()
            if r_ == B_ + 'OptimizationObjective' or r_ in chain:
                continue
            chain.append(r_)
            rr = F.record(r_, required=False)
            work.extend(rr['bases'] if rr else [])
        ov = [g for r_ in chain for g in F.by_name.get(r_ + '::isSymmetric', []) if g.body]
        says_false = any(any(x['k'] == 'ReturnStmt' and x['ch'] and (g.strip(x['ch'][0]) or {}).get('k') == 'CXXBoolLiteralExpr' and
                             (g.strip(x['ch'][0]) or {}).get('v') in (False, 'false', 0) for x in g.walk()) for g in ov)
        rep.add('R04s', f.name, 'direction-declared', says_false, f.loc,
                'the motion cost depends on the direction and isSymmetric() returns false' if says_false else
                'motionCost(s1, s2) is not symmetric under exchange of s1 and s2, but %s does not override isSymmetric() to return false: the '
                'inherited answer is the state space\'s, and RRT* then re-uses the cost of the opposite edge -- stored costs are no longer '
                'path costs' % f.record.split('::')[-1])
    # composite clause: a weighted sum of component motion costs is symmetric only if every component is -- the composite overrides
    # isSymmetric() and asks each component (the flag conjunction that R06a requires of compound state spaces, for objectives)
    mo = [g for g in F.by_name.get(B_ + 'MultiOptimizationObjective::isSymmetric', []) if g.body]
    ok = False
    if mo:
        g = mo[0]
        loops = [x for x in g.walk() if x['k'] in ('CXXForRangeStmt', 'ForStmt') and x.get('body')]
        asks = any((c.get('callee') or '').endswith('OptimizationObjective::isSymmetric') and 'component' in g.fp(c['ch'][0]).lower()
                   for lp in loops for c in g.walk(lp['body']))
        over = any('components_' in g.fp(lp.get('range') or lp.get('cond') or lp['id']) for lp in loops)
        ok = bool(loops) and asks and over
    n += 1
    rep.add('R04s', B_ + 'MultiOptimizationObjective::motionCost', 'direction-declared:composite', ok,
            mo[0].loc if mo else F.one(B_ + 'MultiOptimizationObjective::motionCost').loc,
            'isSymmetric() asks every component' if ok else
            'the weighted sum of component motion costs does not override isSymmetric() with a conjunction over its components: with a '
            'direction-dependent component it still claims a symmetric cost')
    rep.require_count('R04s', 'objectives with a straight-line motion cost (plus the composite)', n, 5)


def run(rep):
    F = facts.load_units(UNITS)
    rep.units.update(UNITS)
    rep.functions.update(f.key for f in F.functions if f.file.endswith('.cpp'))
    r04a(rep, F)
    r04b(rep, F)
    r04c(rep, F)
    r04d(rep, F)
    r04f(rep, F)
    r04g(rep, F)
    r04h(rep, F)
    r04i(rep, F)
    r04j(rep, F)
    r04k(rep, F)
    r04l(rep, F)
    r04m(rep, F)
    r04n(rep, F)
    r04o(rep, F)
    from rules import c03, c15
    must, may = c03.add_summaries(F)
    r04q(rep, F, must, may)
    r04s(rep, F)
    # R04r: the cost attached to a registered path is the cost of that path's vertex (C01's R01y under C04's id)
    from rules import c01_informed
    c01_informed.r01y(rep, F, rule='R04r')
    # R04p: the admissible bound of a query with several starts is the best over ALL starts (C15's R15c on the generic informed heuristic)
    F15 = facts.load_units(c15.UNITS)
    rep.units.update(c15.UNITS)
    before = len(rep.obl)
    c15.r15c(rep, F15)
    rep.rule_text['R04p'] = rep.rule_text.pop('R15c') + '  (C15\'s R15c under C04\'s id: the heuristic solution cost is the lower bound the property compares true costs with)'
    for o in rep.obl[before:]:
        if o['rule'] == 'R15c':
            o['rule'] = 'R04p'
    rep.nontrivial = {(('R04p' if r == 'R15c' else r), fn_, role) for (r, fn_, role) in rep.nontrivial}
    rep.broken = [b.replace('R15c', 'R04p') for b in rep.broken]
