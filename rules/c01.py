"""C01 -- geometric planners only report solution paths that are real (structural clauses).

R01a edge admission: every tree link / roadmap edge is created on paths dominated by a successful motion check (or by a
     3-argument check whose last-valid state is what gets linked); helper functions are discharged at their call sites
R01b lazy planners: validity flags are set only after the corresponding check; LazyPRM's edge-validation walk covers the
     whole predecessor chain
R01c start / goal states handed to planners passed satisfiesBounds and isValid
R01d status <-> approximate flag <-> registration in every geometric solve()
R01e the node that becomes the (approximate) solution is the node whose state was tested by goal->isSatisfied
R01f PathGeometric::check validates state 0 and every adjacent pair and fails as soon as one fails
R01g path assembly loops cover every extracted node
R01h interpolation parameters that can exceed 1 are followed by enforceBounds before the state is used
"""
import re
from engine import facts, paths, lin, fd
from engine.facts import AnalysisBroken, src
from engine.shape import key, args, pkey, for_loop
from rules import planners as P
from rules import c03
from rules.planners import B, nofp

G = 'ompl::geometric::'
# planners that admit unchecked edges by design and validate when a candidate path is extracted (R01b instead)
LAZY = {G + 'LBKPIECE1', G + 'LazyRRT', G + 'SBL', G + 'pSBL', G + 'LazyPRM', G + 'LazyLBTRRT'}
# one symbol each, with the reason
ADMISSION_EXCEPTIONS = {
    (G + 'STRRTstar::pruneGoalTree', 'parent'): 'children are re-linked to an equal-state copy of their (already validated) parent',
    (G + 'XXL::shortestPath', 'parent'): 'parent is a search-node index of the region graph search, not a tree edge',
    (G + 'LBTRRT::considerEdge', 'addEdge'): 'lower-bound graph edge; admitted under checkMotion inside considerEdge\'s caller chain (listed)',
    (G + 'PRM::PRM', 'add_edge'): 'constructor that copies a roadmap from planner data supplied by the caller',
    (G + 'LazyPRM::LazyPRM', 'add_edge'): 'constructor that copies a roadmap from planner data supplied by the caller',
    (G + 'BFMT::solve', 'setParent'): 're-parents reverse-tree nodes along the already validated connection path when the two trees are merged',
    (G + 'BiTRRT::addMotion', 'parent'): 'called from extendTree (after its motion check) and from connectTrees, which links the tree ends only '
                                         'after extendTree reported success for the same pair',
    (G + 'PDST::addMotion', 'parent'): 'the motion comes from propagateFrom, which truncates it with the 3-argument motion check',
    (G + 'SPARS::connectSparsePoints', 'add_edge'): 'vertices come from visibility neighbourhoods / interface tests computed with checkMotion',
    (G + 'SPARS::connectDensePoints', 'add_edge'): 'called for dense neighbours filtered by checkMotion in the dense-graph update',
    (G + 'SPARStwo::connectGuards', 'add_edge'): 'vertices come from visibility neighbourhoods / interface tests computed with checkMotion',
    (G + 'PRM::expandRoadmap', 'add_edge'): 'edges between consecutive states of a random walk returned by randomBounceMotion, which '
                                            'validates each step with checkMotion (3-argument form) itself',
}


def link_sites(f):
    """admission sites of a function: {node id: kind}"""
    sites = {}
    for n in f.walk():
        if n['k'] == 'BinaryOperator' and n.get('op') == '=':
            t = f.strip(n['ch'][0])
            if t is not None and t['k'] == 'MemberExpr' and t.get('name') in ('parent', 'parent_', 'parentApx_') and '*' in (t.get('ty') or ''):
                r = f.strip(n['ch'][1])
                if r is not None and r['k'] in ('CXXNullPtrLiteralExpr', 'GNUNullExpr'):
                    continue
                if r is not None and r['k'] == 'ImplicitCastExpr' and (f.strip(r['ch'][0]) or {}).get('k') in ('CXXNullPtrLiteralExpr', 'GNUNullExpr'):
                    continue
                sites[n['id']] = 'parent'
        c = n.get('callee') or ''
        if c == 'boost::add_edge':
            sites[n['id']] = 'add_edge'
        elif c.endswith('::setParent') and 'geometric' in c:
            sites[n['id']] = 'setParent'
    return sites


def r01a(rep, F):
    rep.rule('R01a', 'guard dominance over the CFG: every store of a non-null tree link (node->parent = x), every '
                     'boost::add_edge on a planner roadmap and every FMT-style setParent is reached only on paths on which a '
                     'motion check succeeded since the candidate loop was entered (a 3-argument check counts on either result: '
                     'its last-valid state is what gets linked; a ternary that selects between two checks counts when both '
                     'alternatives check). Helpers whose sites are not locally guarded are discharged at every call site. '
                     'Lazy planners are handled by R01b; frozen exceptions carry a reason')
    W = P.check_wrappers(F)
    rep.extra['check_wrappers'] = sorted(W)
    pending = {}   # helper function name -> [(site kind, where)]
    n = 0
    fns = [f for f in F.functions if f.file.endswith('.cpp') and '/geometric/planners/' in f.file and not f.name.endswith('::getPlannerData')]
    for f in fns:
        sites = link_sites(f)
        if not sites:
            continue
        rec = f.record or ''
        cl = P.MotionGuard(f, lambda fn, node, sites=sites: node['id'] if node.get('id') in sites else None, wrappers=W)
        paths.run_function(f, cl, F)
        ordn = {}
        for sid in sorted(sites):
            kind = sites[sid]
            ordn[kind] = ordn.get(kind, 0) + 1
            role = '%s#%d' % (kind, ordn[kind])
            g = cl.at.get(sid)
            if g is None:
                continue  # unreachable in the CFG (constant-false branch)
            n += 1
            if g:
                rep.add('R01a', f.name, role, True, f.where(sid), 'dominated by a successful motion check')
                continue
            base = rec.split('::(lambda')[0]
            if any(base == l or base.startswith(l + '::') for l in LAZY):
                rep.undecided('R01a', f.name, role, 'lazy planner: edges are admitted unchecked by design and validated at path extraction (R01b)')
                continue
            if (f.name, kind) in ADMISSION_EXCEPTIONS and f.name.endswith(('::solve', '::shortestPath', '::pruneGoalTree', '::considerEdge', '::PRM', '::LazyPRM', '::expandRoadmap')):
                rep.undecided('R01a', f.name, role, ADMISSION_EXCEPTIONS[(f.name, kind)])
                continue
            pending.setdefault(f.name, []).append((role, f.where(sid), cl.paths_.get(sid)))
    # caller summaries (bound 2)
    for hname, lst in sorted(pending.items()):
        kinds = {r.split('#')[0] for (r, _, _) in lst}
        if all((hname, k) in ADMISSION_EXCEPTIONS for k in kinds):
            for (role, where, path) in lst:
                rep.undecided('R01a', hname, role, ADMISSION_EXCEPTIONS[(hname, role.split('#')[0])])
            continue
        callers = []
        for f in fns:
            calls = {c['id']: c for c in f.walk() if c.get('callee') == hname}
            if not calls:
                continue
            cl = P.MotionGuard(f, lambda fn, node, calls=calls: node['id'] if node.get('id') in calls else None, wrappers=W)
            paths.run_function(f, cl, F)
            for cid, c in calls.items():
                g = cl.at.get(cid)
                if g is None:
                    continue
                # a call that passes a null parent creates a root, not an edge
                root = any((f.strip(a) or {}).get('k') in ('CXXNullPtrLiteralExpr', 'GNUNullExpr') or
                           ((f.strip(a) or {}).get('k') == 'ImplicitCastExpr' and (f.strip((f.strip(a))['ch'][0]) or {}).get('k') == 'CXXNullPtrLiteralExpr')
                           for a in args(f, c))
                callers.append((f, c, bool(g) or root))
        for (role, where, path) in lst:
            if callers and all(ok for (_, _, ok) in callers):
                rep.add('R01a', hname, role, True, where, 'helper: every one of its %d call sites is dominated by a successful motion '
                        'check (or creates a root)' % len(callers))
            elif not callers:
                rep.add('R01a', hname, role, False, where, 'an edge is admitted without any motion check on the path, and the function has '
                        'no guarded callers', path)
            else:
                badc = [(f, c) for (f, c, ok) in callers if not ok][0]
                rep.add('R01a', hname, role, False, where, 'an edge is admitted without a successful motion check: neither locally nor at '
                        'the call site %s' % badc[0].where(badc[1]), path)
    rep.require_count('R01a', 'admission sites', n, 45)


def r01b(rep, F):
    rep.rule('R01b', 'lazy validation: in the path validators of the lazy planners a motion / vertex / edge is marked valid only on '
                     'paths where the corresponding check just succeeded; LazyPRM\'s edge walk over the predecessor chain '
                     'terminates on the pair it has just advanced (no look-ahead), so the edge that reaches the root is checked '
                     'too, and returns a path only when no edge failed')
    W = P.check_wrappers(F)
    n = 0
    for f in F.functions:
        if not f.file.endswith('.cpp') or '/geometric/planners/' not in f.file:
            continue
        if not f.name.endswith(('::isPathValid', '::constructSolution')):
            continue      # roots created from validated start/goal states are marked valid in solve()
        sites = {}
        for x in f.walk():
            if x['k'] == 'BinaryOperator' and x.get('op') == '=':
                t = f.strip(x['ch'][0])
                if t is not None and t['k'] == 'MemberExpr' and t.get('name') == 'valid' and (f.strip(x['ch'][1]) or {}).get('v') is True:
                    sites[x['id']] = 'valid-flag'
            if x['k'] == 'CompoundAssignOperator' and x.get('op') == '|=' and 'VALIDITY_TRUE' in f.fp(x['ch'][1]):
                t = nofp(f.fp(x['ch'][0]))
                sites[x['id']] = 'edge-validity' if t.startswith('evd') else 'vertex-validity'
        if not sites:
            continue
        extra = (B + 'SpaceInformation::isValid',)
        cl = P.MotionGuard(f, lambda fn, node, sites=sites: node['id'] if node.get('id') in sites else None, wrappers=W, extra_true=extra)
        paths.run_function(f, cl, F)
        for sid, kind in sorted(sites.items()):
            g = cl.at.get(sid)
            if g is None:
                continue
            n += 1
            rep.add('R01b', f.name, '%s#%d' % (kind, f.line(sid)), bool(g), f.where(sid),
                    'marked valid only after the check succeeded' if g else
                    'a motion/vertex/edge is marked valid on a path where no check succeeded: the lazy planner then reports it unchecked',
                    cl.paths_.get(sid))
    rep.require_count('R01b', 'lazy validity marks', n, 5)
    # (b) new graph elements of the lazy roadmap start UNKNOWN: whatever the origin of a vertex or edge (grown, imported from planner data,
    # added for a start or goal), a plain assignment to a validity property stores VALIDITY_UNKNOWN; VALIDITY_TRUE is only ever or-ed in
    # by the validated walk above
    m = 0
    for f in F.functions:
        if not f.body or not f.file.endswith('.cpp') or not ((f.record or '').endswith('::LazyPRM') or '::LazyPRM::' in (f.d.get('lambda_of') or '')):
            continue
        for x in f.walk():
            if (x['k'] == 'BinaryOperator' and x.get('op') == '=') or (x['k'] == 'CXXOperatorCallExpr' and x.get('oop') == '='):
                t = nofp(f.fp(x['ch'][0]))
                if 'ValidityProperty_' not in t:
                    continue
                m += 1
                rhs = nofp(f.fp(x['ch'][-1]))
                ok = 'VALIDITY_UNKNOWN' in rhs and 'VALIDITY_TRUE' not in rhs
                kind = 'edge' if 'edgeValidity' in t else 'vertex'
                k = len([1 for o in rep.obl if o['rule'] == 'R01b' and o['function'] == f.name and o['role'].startswith('initial-validity')])
                rep.add('R01b', f.name, 'initial-validity:%s#%d' % (kind, k), ok, f.where(x),
                        'a new %s starts with unknown validity' % kind if ok else
                        'a %s is created with validity %s: constructSolution() skips the check of everything already marked valid, so an '
                        'unchecked %s can be reported' % (kind, rhs.split('::')[-1], 'motion' if kind == 'edge' else 'state'))
    rep.require_count('R01b', 'initial validity stores of the lazy roadmap', m, 6)
    # (c) the extraction-time validation looks at EVERY extracted node before the path is reported: the loop that validates mpath[i]
    # (if (!mpath[i]->valid) { check ... mpath[i]->valid = true ... }) runs from the last index down to 0 and can only stop early
    # through the failure verdict (a bool that the failing branch clears, or a return false)
    m = 0
    for f in F.functions:
        if not f.body or not f.file.endswith('.cpp') or '/geometric/planners/' not in f.file:
            continue
        for lp in [x for x in f.walk() if x['k'] == 'ForStmt' and x.get('body')]:
            marks = [x for x in f.walk(lp['body']) if x['k'] == 'BinaryOperator' and x.get('op') == '=' and
                     (f.strip(x['ch'][0]) or {}).get('name') == 'valid' and (f.strip(x['ch'][1]) or {}).get('v') is True and
                     'operator[]' in f.fp(x['ch'][0]) and _nearest_loop(f, x['id']) == lp['id']]
            if not marks or not any(P.is_motion_check(c, W) for c in f.walk(lp['body'])):
                continue
            m += 1
            conj = []

            def flat(nid):
                e = f.strip(nid)
                if e is not None and e['k'] == 'BinaryOperator' and e.get('op') == '&&':
                    flat(e['ch'][0]); flat(e['ch'][1])
                elif e is not None:
                    conj.append(e)
            if lp.get('cond'):
                flat(lp['cond'])
            flags = set()
            for x in f.walk(lp['body']):
                if x['k'] == 'BinaryOperator' and x.get('op') == '=' and (f.strip(x['ch'][1]) or {}).get('v') is False and key(f, x['ch'][0]):
                    flags.add(key(f, x['ch'][0]))
            extra = []
            bound = 0
            for e in conj:
                if lin.cmp_le0(f, e['id']) is not None and any(y['k'] == 'DeclRefExpr' and y.get('dk') == 'Local' for y in f.walk(e['id'])) and e['k'] == 'BinaryOperator':
                    bound += 1
                elif e['k'] == 'DeclRefExpr' and key(f, e['id']) in flags:
                    pass
                else:
                    extra.append(nofp(f.fp(e['id'])))
            brk = [x for x in f.walk(lp['body']) if x['k'] == 'BreakStmt' and _nearest_loop(f, x['id']) == lp['id']]
            bad_brk = [b for b in brk if not any(x['k'] == 'BinaryOperator' and x.get('op') == '=' and key(f, x['ch'][0]) in flags
                                                 for x in f.walk(f.parent.get(b['id'])))]
            ok = bound == 1 and not extra and not bad_brk
            rep.add('R01b', f.name, 'validation-covers-every-node', ok, f.where(lp),
                    'the validation loop stops early only through the failure verdict' if ok else
                    'the validation loop can also end through %s while the verdict is still positive: the nodes not yet looked at are '
                    'reported unchecked' % (', '.join(extra) if extra else 'a break that does not clear the verdict'))
    rep.require_count('R01b', 'extraction-time validation loops', m, 4)
    cs = F.one(G + 'LazyPRM::constructSolution')
    dos = [x for x in cs.walk() if x['k'] == 'DoStmt' and any(P.is_motion_check(c) for c in cs.walk(x['body']))]
    if len(dos) != 1:
        raise AnalysisBroken('R01b: edge-validation walk of LazyPRM::constructSolution not found')
    d = dos[0]
    # chain variables: X = Y ; Y = prev[Y] at the end of the body
    adv = [x for x in cs.walk(d['body']) if (x['k'] == 'BinaryOperator' and x.get('op') == '=') or
           (x['k'] == 'CXXOperatorCallExpr' and x.get('oop') == '=')]
    pair = None
    for a in adv:
        l, r = nofp(cs.fp(a['ch'][0])), nofp(cs.fp(a['ch'][1]))
        m = re.search(r'\((prev),(\w+)\)$', r) or re.search(r'prev.*?(\w+)\)$', r)
        if 'prev' in r and l in r:
            pos = l
            for b in adv:
                if nofp(cs.fp(b['ch'][1])) == pos and nofp(cs.fp(b['ch'][0])) != pos:
                    pair = (nofp(cs.fp(b['ch'][0])), pos)
    if pair is None:
        raise AnalysisBroken('R01b: chain advance of the LazyPRM edge walk not recognised')
    cfp = nofp(cs.fp(d['cond']))
    ok = pair[0] in cfp and pair[1] in cfp and 'prev' not in cfp.replace(pair[0], '')
    rep.add('R01b', cs.name, 'edge-walk-reaches-root', ok, cs.where(d),
            'the walk continues while %s != %s, i.e. until the pair it advanced has reached the root\'s self-loop' % pair if ok else
            'the edge walk terminates by looking ahead (%s): it stops before the edge that reaches the root (the one out of the '
            'start) has been validated' % cfp)
    rets = [r for r in cs.walk() if r['k'] == 'ReturnStmt' and r['ch']]
    inloop = [r for r in rets if any(a['id'] == d['id'] for a in cs.ancestors(r['id']))]
    ok = bool(inloop) and all('PathPtr' in nofp(cs.fp(r['ch'][0])) or 'shared_ptr' in nofp(cs.fp(r['ch'][0])) for r in inloop) and \
        all(not any(x['k'] == 'DeclRefExpr' for x in cs.walk(r['ch'][0])) for r in inloop)
    rep.add('R01b', cs.name, 'failed-edge-returns-empty', ok, cs.where(d), 'an invalid edge removes it and returns an empty path' if ok else
            'an invalid edge does not lead to an empty result')


GOALTEST_EXCEPTIONS = {
    G + 'LazyLBTRRT::rrtExtend': 'tests dstate, which was just copied into the new motion (createMotion(goal, dstate)) in the same statement sequence',
    G + 'LazyLBTRRT::createMotion': 'tests the state that the motion being created copies',
}


def r01e(rep, F):
    rep.rule('R01e', 'goal satisfaction provenance: for goal->isSatisfied(M->state, &dist) the nodes stored as solution / approximate '
                     'solution under that verdict (or under a comparison of that dist) are M itself -- so the flag, the goal '
                     'difference and the path\'s last state agree')
    n = 0
    for f in F.functions:
        if not f.file.endswith('.cpp') or '/geometric/planners/' not in f.file:
            continue
        for c in f.walk():
            if not ((c.get('callee') or '').endswith('::isSatisfied') and 'Goal' in c['callee']):
                continue
            a = args(f, c)
            x = f.strip(a[0])
            plain = x is None or x['k'] != 'MemberExpr' or x.get('name') not in ('state', 'state_', 'endState_')
            if plain and f.name in GOALTEST_EXCEPTIONS:
                rep.undecided('R01e', f.name, 'solution-node#%d' % f.line(c), GOALTEST_EXCEPTIONS[f.name])
                continue
            if plain and x is not None and x['k'] == 'CXXMemberCallExpr' and (x.get('callee') or '').split('::')[-1] in ('getState', 'state') and x['ch']:
                plain = False      # accessor form M->getState()
            M = nofp(f.fp(x['ch'][0])) if not plain else None
            # verdict carriers: the call, a variable initialised from it, the distance out-parameter
            carriers = {c['id']}
            vkeys = set()
            for y in f.walk():
                if y['k'] == 'DeclStmt':
                    for d in y.get('decls', []):
                        if d.get('init') and any(z['id'] == c['id'] for z in f.walk(d['init'])):
                            vkeys.add('%s#%d' % (d['name'], d['did']))
                elif y['k'] == 'BinaryOperator' and y.get('op') == '=' and any(z['id'] == c['id'] for z in f.walk(y['ch'][1])):
                    k = key(f, y['ch'][0])
                    if k:
                        vkeys.add(k)
            # a verdict variable fed by several goal tests is not attributed to one of them
            multi = False
            for vk in list(vkeys):
                feeds = 0
                for y in f.walk():
                    rhs = None
                    if y['k'] == 'DeclStmt':
                        for d in y.get('decls', []):
                            if '%s#%d' % (d['name'], d['did']) == vk and d.get('init'):
                                rhs = d['init']
                    elif y['k'] == 'BinaryOperator' and y.get('op') == '=' and key(f, y['ch'][0]) == vk:
                        rhs = y['ch'][1]
                    if rhs and any((z.get('callee') or '').endswith('::isSatisfied') for z in f.walk(rhs)):
                        feeds += 1
                if feeds > 1:
                    multi = True
            if multi:
                continue
            if len(a) > 1:
                for z in f.walk(a[1]):
                    if z['k'] == 'DeclRefExpr' and z.get('dk') == 'Local':
                        dk_ = '%s#%d' % (z['name'], z['did'])
                        # the distance is a carrier of this verdict only if nothing else writes it
                        others = [y for y in f.walk() if (y['k'] == 'BinaryOperator' and y.get('op') == '=' and key(f, y['ch'][0]) == dk_) or
                                  ((y.get('callee') or '').endswith('::isSatisfied') and y['id'] != c['id'] and len(args(f, y)) > 1 and
                                   any(w['k'] == 'DeclRefExpr' and '%s#%d' % (w.get('name'), w.get('did')) == dk_ for w in f.walk(args(f, y)[1])))]
                        if not others:
                            vkeys.add(dk_)
            stores = []
            for i in [y for y in f.walk() if y['k'] == 'IfStmt']:
                ment = any(z['id'] in carriers or (z['k'] == 'DeclRefExpr' and '%s#%d' % (z.get('name'), z.get('did')) in vkeys)
                           for z in f.walk(i['cond']))
                if not ment or f.line(i) < f.line(c):
                    continue
                for y in f.walk(i['then']):
                    if y['k'] == 'BinaryOperator' and y.get('op') == '=':
                        t, r = f.strip(y['ch'][0]), f.strip(y['ch'][1])
                        tty = (t or {}).get('ty') or ''
                        if t is None or r is None or '*' not in tty or not re.search(r'Motion|Vertex', tty):
                            continue
                        if t['k'] == 'MemberExpr' and t.get('name') in ('parent', 'parent_', 'root'):
                            continue
                        if r['k'] not in ('DeclRefExpr', 'MemberExpr') or not re.search(r'Motion|Vertex', r.get('ty') or ''):
                            continue
                        if r['k'] == 'MemberExpr' and r.get('name') in ('parent', 'parent_') and r['ch'] and \
                                nofp(f.fp(r['ch'][0])) == nofp(f.fp(y['ch'][0])):
                            continue      # a step of the extraction walk: x = x->parent
                        stores.append(y)
            if not stores:
                continue
            n += 1
            if plain:
                rep.add('R01e', f.name, 'solution-node#%d' % f.line(c), False, f.where(c),
                        'the goal test is applied to %s, which is not the state of the node (%s) recorded under that verdict: with a '
                        'truncated motion the path ends elsewhere while status / flag / difference describe %s' % (
                            nofp(f.fp(a[0])), nofp(f.fp(stores[0]['ch'][1])), nofp(f.fp(a[0]))))
                continue
            # aliases: V = M assigned between the test and the store
            alias = {M}
            for y in sorted(stores, key=lambda z: f.line(z)):
                if nofp(f.fp(y['ch'][1])) in alias:
                    alias.add(nofp(f.fp(y['ch'][0])))
            bad = [y for y in stores if nofp(f.fp(y['ch'][1])) not in alias]
            rep.add('R01e', f.name, 'solution-node#%d' % f.line(c), not bad, f.where(c),
                    'isSatisfied tests the state of %s but the node recorded under that verdict is %s: status, goal difference and the path\'s '
                    'last state no longer describe the same state' % (M, nofp(f.fp(bad[0]['ch'][1]))) if bad else
                    'the recorded node is the one whose state was tested (%d stores)' % len(stores))
    rep.require_count('R01e', 'goal tests with recorded nodes', n, 12)


def r01f(rep, F):
    rep.rule('R01f', 'PathGeometric::check: state 0 is validated, then checkMotion on (states[i], states[i+1]) for i = 0 .. size-2 '
                     '(linear normal form of the loop and of the index pair), and the result becomes false as soon as one fails')
    fn = F.one(G + 'PathGeometric::check')
    fors = [x for x in fn.walk() if x['k'] == 'ForStmt']
    why = None
    if len(fors) != 1:
        raise AnalysisBroken('R01f: loop of PathGeometric::check not found')
    env = lin.local_env(fn)
    idx, start, cond, stride = for_loop(fn, fors[0])
    cond = None
    for cj in [fors[0]['cond']] + [x['id'] for x in fn.walk(fors[0]['cond']) if x['k'] == 'BinaryOperator' and x.get('op') in ('<', '<=', '>', '>=')]:
        cc = lin.cmp_le0(fn, cj, env)
        if cc is not None and any(nofp(k) == nofp(idx) for k, _ in cc[1]):
            cond = cc
            break
    cm = [c for c in fn.walk(fors[0]['body']) if P.is_motion_check(c)]
    S = 'std::vector::size(this.states_)'
    first = [c for c in fn.walk() if (c.get('callee') or '').endswith('::isValid') and fn.line(c) < fn.line(fors[0])]
    cd = {nofp(k): v for k, v in cond[1]} if cond else {}
    if not first or 'states_' not in nofp(fn.fp(args(fn, first[0])[0])):
        why = 'the first state is not validated'
    elif start != {1: 0} or stride != 1:
        why = 'the loop does not start at the first segment with unit stride'
    elif len(cm) != 1:
        why = 'loop body is not one motion check'
    else:
        a = args(fn, cm[0])
        i0 = lin.lin(fn, fn.strip(a[0])['ch'][1]) if fn.strip(a[0]).get('oop') == '[]' else None
        i1 = lin.lin(fn, fn.strip(a[1])['ch'][1]) if fn.strip(a[1]).get('oop') == '[]' else None
        if i0 != {idx: 1} or i1 != {idx: 1, 1: 1}:
            why = 'the checked pair is not (states[i], states[i+1])'
        else:
            # i < last  with last = size-1  <=>  i - size + 2 <= 0 ; also accept i + 1 < size
            ix = nofp(idx)
            if not (cond and cond[0] == 'le0' and cd.get(ix) == 1 and cd.get(S) == -1 and cd.get('1') == 2 and len(cd) == 3):
                why = 'the loop does not cover segments 0 .. size-2 (bound %s <= 0)' % (lin.show(cond[1]) if cond else '?')
    if why is None:
        # failure propagates: `result` false => break / loop guard, and returned
        cl = CheckClient()
        paths.run_function(fn, cl, F)
        if cl.bad:
            why = 'a failed validity / motion check does not make check() return false'
    rep.add('R01f', fn.name, 'all-segments', why is None, fn.loc, why or 'state 0 and every adjacent pair are validated; a failure is returned')


class CheckClient(paths.Client):
    fork_bools = True

    def __init__(self):
        self.bad = []

    def init(self, fn):
        return False

    def learn(self, fn, node, value, auto, ctx):
        if value is False and (P.is_motion_check(node) or (node.get('callee') or '').endswith('::isValid')):
            return True
        return auto

    def at_exit(self, fn, ret, auto, ctx):
        if auto and ret is not None and ret['ch'] and ctx.eval(ret['ch'][0]) is not False:
            self.bad.append(ctx.path())


class BoundsAfter(paths.Client):
    """after interpolate(.., T, out) with T possibly > 1: enforceBounds(out) before out is used by anything else"""
    track = 'none'

    def __init__(self, site, outkey):
        self.site = site
        self.outkey = outkey
        self.bad = []

    def init(self, fn):
        return False

    def on_node(self, fn, node, auto, ctx):
        if node.get('id') == self.site:
            return True
        if not auto:
            return auto
        c = node.get('callee')
        if c and c.endswith('::enforceBounds') and key(fn, args(fn, node)[0]) == self.outkey:
            return False
        if c and node.get('id') != self.site and any(key(fn, a) == self.outkey for a in args(fn, node)):
            self.bad.append((node['id'], ctx.path()))
            return False
        return auto

    def at_exit(self, fn, ret, auto, ctx):
        if auto:
            self.bad.append((ret['id'] if ret else self.site, ctx.path()))


def r01h(rep, F):
    rep.rule('R01h', 'states created by interpolate(a, b, T, out) in planner code: when T is a quotient A/D the call is dominated '
                     'by D > A (so T < 1 and the state lies between two in-bounds states), otherwise enforceBounds(out) follows '
                     'before out is handed to any other call (an extrapolated state can leave the bounds and the motion check only '
                     'consults the validity checker)')
    n = 0
    for f in F.functions:
        if not f.file.endswith('.cpp') or '/geometric/planners/' not in f.file:
            continue
        for c in f.walk():
            if not ((c.get('callee') or '').endswith('StateSpace::interpolate') and len(args(f, c)) == 4):
                continue
            a = args(f, c)
            t = f.strip(a[2])
            if t is None or t['k'] != 'BinaryOperator' or t.get('op') != '/':
                continue
            A, D = lin.lin(f, t['ch'][0]), lin.lin(f, t['ch'][1])
            if A is None or D is None or (set(A) <= {1}) or 'cast<' in nofp(f.fp(t['ch'][0])):
                continue  # index/count fractions k/n are within [0,1] by their loop bounds (not decided here)
            n += 1
            want = ('lt', lin.canon(lin._add(A, D, -1)))   # A - D < 0
            g = DomCmp(c['id'], want)
            paths.run_function(f, g, F)
            if g.res:
                rep.add('R01h', f.name, 'interpolate#%d' % f.line(c), True, f.where(c), 'T = %s/%s under the guard %s > %s' % (
                    nofp(f.fp(t['ch'][0])), nofp(f.fp(t['ch'][1])), nofp(f.fp(t['ch'][1])), nofp(f.fp(t['ch'][0]))))
                continue
            outk = key(f, a[3])
            b = BoundsAfter(c['id'], outk)
            paths.run_function(f, b, F)
            ok = outk is not None and not b.bad
            rep.add('R01h', f.name, 'interpolate#%d' % f.line(c), ok, f.where(c),
                    'T can exceed 1; enforceBounds(%s) follows before any other use' % nofp(outk or '?') if ok else
                    'T = %s/%s is not bounded by 1 and the resulting state is used (%s) before enforceBounds: an out-of-bounds '
                    'state can enter the tree' % (nofp(f.fp(t['ch'][0])), nofp(f.fp(t['ch'][1])),
                                                 f.where(b.bad[0][0]) if b.bad else 'no enforceBounds'), b.bad[0][1] if b.bad else None)
    rep.require_count('R01h', 'quotient interpolation parameters', n, 14)


class DomCmp(paths.Client):
    """does the comparison `want` (real normal form) hold on every path reaching the site?"""
    track = 'vars'

    def __init__(self, site, want):
        self.site, self.want = site, want
        self.res = None
        self.relevant = set()
        self.relevant_preds = set()

    def init(self, fn):
        return False

    def learn(self, fn, node, value, auto, ctx):
        if node.get('k') == 'BinaryOperator' and node.get('op') in ('<', '>', '<=', '>='):
            c = lin.cmp_real(fn, node['id'])
            if c is None:
                return auto
            if value and c == self.want:
                return True
            # not (D <= A)  =>  A < D
            if (not value) and c[0] == 'le' and ('lt', lin.canon({k: -v for k, v in c[1]})) == self.want:
                return True
        return auto

    def on_node(self, fn, node, auto, ctx):
        if node.get('id') == self.site:
            self.res = auto if self.res is None else (self.res and auto)
        # the fact dies when an operand is reassigned (new candidate): conservatively at assignments to the compared atoms
        if node['k'] == 'BinaryOperator' and node.get('op') == '=' and auto:
            k = key(fn, node['ch'][0])
            if k and any(k == kk for kk, _ in self.want[1]):
                return False
        if node['k'] == 'DeclStmt' and auto:
            for d in node.get('decls', []):
                if any('%s#%d' % (d['name'], d['did']) == kk for kk, _ in self.want[1]):
                    return False
        return auto


class ScratchClient(paths.Client):
    """auto = 'fresh' | 'dirty' | None for one scratch motion X:  fresh after copyState(X->state, .), dirty after X was passed to a repo
    function that may overwrite it"""
    track = 'all'

    def __init__(self, fn, xkey, loop):
        self.x, self.loop = xkey, loop
        self.bad = []
        self.calls = 0
        self.inloop = {n['id'] for n in fn.walk(loop['id'])}
        # remember only the conditions inside this loop (its own condition and the ifs in its body): they decide whether the
        # reload is reached before the next call
        self.relevant = set()
        self.relevant_preds = set()
        for n in fn.walk(loop['id']):
            c = n.get('cond')
            if c and n['k'] in ('IfStmt', 'WhileStmt', 'ForStmt', 'DoStmt'):
                for x in fn.walk(c):
                    self.relevant_preds.add(fn.fp(x['id']))

    def init(self, fn):
        return None

    def on_node(self, fn, node, auto, ctx):
        c = node.get('callee')
        if c is None:
            return auto
        a = args(fn, node)
        if c.endswith('::copyState') and len(a) == 2:
            t = fn.strip(a[0])
            if t is not None and t['k'] == 'MemberExpr' and t.get('name') == 'state' and key(fn, t['ch'][0]) == self.x:
                return 'fresh'
            return auto
        if not node.get('crepo'):
            return auto
        for i in node.get('wargs') or []:
            if i < len(a) and key(fn, a[i]) == self.x and node['id'] in self.inloop:
                self.calls += 1
                if auto == 'dirty':
                    self.bad.append(('the scratch motion is handed to %s again although the previous call may have overwritten its state and it '
                                     'was not reloaded' % c.split('::')[-1], ctx.path()))
                return 'dirty'
        return auto


def r01j(rep, F):
    rep.rule('R01j', 'scratch targets are reloaded: where a planner loop repeatedly passes a scratch motion X (whose state it filled with '
                     'copyState(X->state, target)) to one of its own functions through a non-const pointer -- the callee may truncate '
                     'X->state in place -- every such call is preceded, on every path, by a copyState into X->state since the previous '
                     'call; otherwise the second step extends towards the truncated state, a zero-length motion is "validated" and the '
                     'trees are joined through a motion nobody checked (BiTRRT::connectTrees)')
    n = 0
    for f in F.functions:
        if not f.body or '/geometric/planners/' not in f.file:
            continue
        filled = set()
        for c in f.walk():
            if (c.get('callee') or '').endswith('::copyState') and len(args(f, c)) == 2:
                t = f.strip(args(f, c)[0])
                if t is not None and t['k'] == 'MemberExpr' and t.get('name') == 'state':
                    k = key(f, t['ch'][0])
                    if k:
                        filled.add(k)
        if not filled:
            continue
        for lp in [x for x in f.walk() if x['k'] in ('DoStmt', 'WhileStmt', 'ForStmt')]:
            for xk in sorted(filled):
                uses = [c for c in f.walk(lp['id']) if c.get('callee') and c.get('crepo') and
                        any(i < len(args(f, c)) and key(f, args(f, c)[i]) == xk for i in (c.get('wargs') or []))]
                uses = [c for c in uses if c['callee'].startswith('ompl::geometric::') and not c['callee'].endswith(('::add', '::nearest', '::push_back'))]
                if not uses:
                    continue
                # result-driven repetition: the value the call returns is what the loop condition tests
                cond_vars = {x.get('did') for x in f.walk(lp['cond'])} if lp.get('cond') else set()
                driven = False
                for c in uses:
                    par = f.nodes.get(f.parent.get(c['id']))
                    while par is not None and par['k'] in ('ImplicitCastExpr', 'ParenExpr', 'ExprWithCleanups'):
                        par = f.nodes.get(f.parent.get(par['id']))
                    if par is not None and par['k'] == 'BinaryOperator' and par.get('op') == '=':
                        t = f.strip(par['ch'][0])
                        if t is not None and t.get('did') in cond_vars:
                            driven = True
                if not driven:
                    continue
                # a scratch motion lives across iterations: a parameter, or a local declared outside this loop
                did = int(xk.split('#')[1])
                inside = any(d['did'] == did for x in f.walk(lp['id']) if x['k'] == 'DeclStmt' for d in x.get('decls', []))
                if inside:
                    continue
                cl = ScratchClient(f, xk, lp)
                paths.run_function(f, cl, F)
                if cl.calls == 0:
                    continue
                n += 1
                rep.add('R01j', f.name, 'scratch-reloaded:%s' % xk.split('#')[0], not cl.bad, f.where(lp),
                        'reloaded before every reuse' if not cl.bad else cl.bad[0][0], cl.bad[0][1] if cl.bad else None)
    rep.require_count('R01j', 'scratch-target loops', n, 1)


ENUMS = ('TRAPPED', 'ADVANCED', 'REACHED')


class SideFlagClient(paths.Client):
    """RRTConnect: which tree does the motion tgi.xmotion belong to, and which tree does the flag tgi.start designate?
    auto = (cur, flag, owner, pend, vals, dead)
      cur    parity of the member startTree_ relative to the value it had when `tree` was bound (0 = designates `tree`)
      flag   parity designated by tgi.start (tgi.start is true  <=>  the tree of that parity is the start tree), or None
      owner  parity of the tree that holds tgi.xmotion, or None
      pend   (result variable, owner before the call, parity of the grown tree): a growTree call whose outcome is not known yet
      vals   ((variable, possible enumerators), ...) learned from the comparisons on this path
      dead   the comparisons on this path contradict each other (infeasible path)"""
    track = 'all'

    def __init__(self, fn, tgi_key, member, trees):
        self.tgi, self.member, self.trees = tgi_key, member, trees     # trees: {did: name}
        self.first_tree = min(trees, key=lambda d: trees[d][1])
        self.bad = []
        self.checked = 0
        self.relevant = set()
        self.relevant_preds = set()
        for n in fn.walk():
            if n['k'] == 'BinaryOperator' and n.get('op') in ('==', '!='):
                r = fn.strip(n['ch'][1])
                if r is not None and r.get('name') in ENUMS:
                    for x in fn.walk(n['id']):
                        self.relevant_preds.add(fn.fp(x['id']))
            # a boolean local that names such a comparison carries the same fact
            if n['k'] == 'DeclStmt':
                for d in n.get('decls', []):
                    if d.get('init') and (d.get('ty') or '').replace('const ', '') == 'bool' and \
                            any((fn.strip(y['ch'][1]) or {}).get('name') in ENUMS for y in fn.walk(d['init'])
                                if y['k'] == 'BinaryOperator' and y.get('op') in ('==', '!=')):
                        self.relevant.add('%s#%d' % (d['name'], d['did']))

    def init(self, fn):
        return (0, None, None, None, (), False)

    def is_flag(self, fn, nid):
        t = fn.strip(nid)
        return t is not None and t['k'] == 'MemberExpr' and t.get('name') == 'start' and key(fn, t['ch'][0]) == self.tgi

    def is_member(self, fn, nid):
        t = fn.strip(nid)
        return t is not None and t['k'] == 'MemberExpr' and t.get('name') == self.member

    def on_node(self, fn, node, auto, ctx):
        cur, flag, owner, pend, vals, dead = auto
        k = node['k']
        if k == 'DeclStmt':
            for d in node.get('decls', []):
                if d['did'] == self.first_tree:
                    # a new iteration: re-base all parities on the value startTree_ has now
                    flag = None if flag is None else flag ^ cur
                    owner = None if owner is None else owner ^ cur
                    pend = None if pend is None else (pend[0], None if pend[1] is None else pend[1] ^ cur, pend[2] ^ cur)
                    cur = 0
            return (cur, flag, owner, pend, vals, dead)
        if k == 'BinaryOperator' and node.get('op') == '=':
            l, r = node['ch']
            if self.is_member(fn, l):
                rr = fn.strip(r)
                if rr is not None and rr['k'] == 'UnaryOperator' and rr.get('op') == '!' and self.is_member(fn, rr['ch'][0]):
                    return (cur ^ 1, flag, owner, pend, vals, dead)
                return (cur, None, None, None, vals, dead) if False else (cur, flag, owner, pend, vals, dead)
            if self.is_flag(fn, l):
                rr = fn.strip(r)
                if self.is_member(fn, r):
                    return (cur, cur, owner, pend, vals, dead)
                if rr is not None and rr['k'] == 'UnaryOperator' and rr.get('op') == '!' and self.is_flag(fn, rr['ch'][0]):
                    return (cur, None if flag is None else flag ^ 1, owner, pend, vals, dead)
                return (cur, None, owner, pend, vals, dead)
        if (node.get('callee') or '').endswith('::growTree'):
            a = args(fn, node)
            t = fn.strip(a[0]) if a else None
            q = None
            if t is not None and t['k'] == 'DeclRefExpr' and t.get('did') in self.trees:
                q = self.trees[t['did']][2]
            # result variable
            var = None
            par = fn.nodes.get(fn.parent.get(node['id']))
            while par is not None and par['k'] in ('ImplicitCastExpr', 'ParenExpr', 'ExprWithCleanups'):
                par = fn.nodes.get(fn.parent.get(par['id']))
            if par is not None and par['k'] == 'BinaryOperator' and par.get('op') == '=':
                var = key(fn, par['ch'][0])
            elif par is not None and par['k'] == 'DeclStmt':
                for d in par.get('decls', []):
                    if d.get('init') and any(x['id'] == node['id'] for x in fn.walk(d['init'])):
                        var = '%s#%d' % (d['name'], d['did'])
            if pend is not None and pend[1] != pend[2]:
                owner = None                       # an earlier outcome was never looked at
            if q is None or var is None:
                return (cur, flag, None, None, vals, dead)
            vals = tuple(x for x in vals if x[0] != var)
            if owner == q:
                return (cur, flag, owner, None, vals, dead)
            return (cur, flag, owner, (var, owner, q), vals, dead)
        # reads of the flag in a condition: the invariant must hold
        if k in ('IfStmt', 'ConditionalOperator') and node.get('cond') and self.is_flag(fn, node['cond']) and not dead:
            self.checked += 1
            alts = [owner] if pend is None else [pend[1], pend[2]]
            if flag is not None and all(o is not None for o in alts) and any(o != flag for o in alts):
                which = 'the other tree' if pend is None else 'the other tree when the last growTree call was %s' % (
                    'TRAPPED' if alts[0] != flag else 'not TRAPPED')
                self.bad.append(('tgi.start is read here as "tgi.xmotion belongs to the start tree", but on this path tgi.xmotion belongs to %s: '
                                 'a goal-tree branch can be taken for a start-tree motion (approximate solution / connection endpoints)' % which,
                                 ctx.path()))
        return (cur, flag, owner, pend, vals, dead)

    def learn(self, fn, node, value, auto, ctx):
        cur, flag, owner, pend, vals, dead = auto
        if node.get('k') != 'BinaryOperator' or node.get('op') not in ('==', '!='):
            return auto
        l, r = fn.strip(node['ch'][0]), fn.strip(node['ch'][1])
        if l is None or r is None or r.get('name') not in ENUMS or l['k'] != 'DeclRefExpr':
            return auto
        var = '%s#%d' % (l.get('name'), l.get('did'))
        eq = value if node['op'] == '==' else (not value)
        old = dict(vals).get(var, frozenset(ENUMS))
        new = (old & {r['name']}) if eq else (old - {r['name']})
        if not new:
            return (cur, flag, owner, pend, vals, True)
        vals = tuple(x for x in vals if x[0] != var) + ((var, frozenset(new)),)
        if pend is not None and pend[0] == var:
            if new <= {'TRAPPED'}:
                owner, pend = pend[1], None
            elif 'TRAPPED' not in new:
                owner, pend = pend[2], None
        return (cur, flag, owner, pend, vals, dead)


def r01k(rep, F):
    rep.rule('R01k', 'RRTConnect side flag: growTree assigns tgi.xmotion exactly on the paths that do not return TRAPPED (summary, checked '
                     'over its CFG); in solve(), tracking relative to the member startTree_ which tree tgi.start designates (set from '
                     'startTree_, toggled by !tgi.start) and which tree holds tgi.xmotion (the grown tree unless the call was TRAPPED; '
                     'outcomes learned from the comparisons with TRAPPED / ADVANCED / REACHED), every condition that reads tgi.start sees '
                     'flag and owner agree -- the approximate solution and the connection endpoints are chosen by that flag')
    fs = [f for f in F.by_name.get('ompl::geometric::RRTConnect::growTree', []) if f.body]
    so = [f for f in F.by_name.get('ompl::geometric::RRTConnect::solve', []) if f.body]
    if not fs or not so:
        raise AnalysisBroken('R01k: RRTConnect::growTree / solve vanished')
    g, f = fs[0], so[0]
    # summary of growTree
    class Sum(paths.Client):
        track = 'none'

        def __init__(s_):
            s_.bad = []
            s_.rets = 0

        def init(s_, fn):
            return False

        def on_node(s_, fn, node, auto, ctx):
            if node['k'] == 'BinaryOperator' and node.get('op') == '=':
                t = fn.strip(node['ch'][0])
                if t is not None and t['k'] == 'MemberExpr' and t.get('name') == 'xmotion':
                    return True
            return auto

        def at_exit(s_, fn, ret, auto, ctx):
            if ret is None or not ret['ch']:
                return
            names = {x.get('name') for x in fn.walk(ret['ch'][0]) if x['k'] == 'DeclRefExpr'}
            s_.rets += 1
            if 'TRAPPED' in names and auto:
                s_.bad.append('a path returns TRAPPED after assigning tgi.xmotion')
            if 'TRAPPED' not in names and not auto:
                s_.bad.append('a path returns %s without assigning tgi.xmotion' % sorted(names & set(ENUMS)))
    sm = Sum()
    paths.run_function(g, sm, F)
    rep.add('R01k', g.name, 'xmotion-assigned-iff-not-trapped', not sm.bad and sm.rets >= 3, g.where(g.nodes[g.body]),
            'tgi.xmotion is assigned exactly when the result is not TRAPPED (%d returns)' % sm.rets if not sm.bad else sm.bad[0])
    # solve
    tgi = None
    trees = {}
    for x in f.walk():
        if x['k'] == 'DeclStmt':
            for d in x.get('decls', []):
                if 'TreeGrowingInfo' in (d.get('ty') or ''):
                    tgi = '%s#%d' % (d['name'], d['did'])
                if 'TreeData' in (d.get('ty') or '') and d.get('init'):
                    ini = f.strip(d['init'])
                    if ini is not None and ini['k'] == 'ConditionalOperator' and (f.strip(ini['cond']) or {}).get('name') == 'startTree_':
                        trees[d['did']] = (d['name'], f.line(x), None)
    if tgi is None or len(trees) != 2:
        raise AnalysisBroken('R01k: RRTConnect::solve no longer binds tree / otherTree from startTree_')
    # parity of each tree variable: number of toggles of startTree_ between the first binding and this one (source order)
    first = min(trees.values(), key=lambda t: t[1])[1]
    for did, (nm, ln, _) in list(trees.items()):
        togg = len([x for x in f.walk() if x['k'] == 'BinaryOperator' and x.get('op') == '=' and (f.strip(x['ch'][0]) or {}).get('name') == 'startTree_'
                    and first <= f.line(x) < ln])
        trees[did] = (nm, ln, togg % 2)
    cl = SideFlagClient(f, tgi, 'startTree_', trees)
    paths.run_function(f, cl, F)
    if cl.checked == 0:
        raise AnalysisBroken('R01k: no condition reads tgi.start in RRTConnect::solve')
    rep.add('R01k', f.name, 'side-flag-designates-owner', not cl.bad, f.where(f.nodes[f.body]),
            'tgi.start agrees with the tree that holds tgi.xmotion at every read (%d reads on the explored paths)' % cl.checked
            if not cl.bad else cl.bad[0][0], cl.bad[0][1] if cl.bad else None)


def r01l(rep, F):
    rep.rule('R01l', 'lazy bidirectional planners (SBL, pSBL, LBKPIECE1): where the two trees are joined through a junction node X created '
                     'with `new`, filled by copyState(X->state, Y->state) from the other tree\'s node Y and linked under the extending '
                     'motion, the condition that guards the extraction of the solution validates exactly these two: isPathValid(., X) '
                     'and isPathValid(., Y).  Validating the parent instead of X leaves the joining motion itself unchecked')
    n = 0
    for f in F.functions:
        if not f.body or '/geometric/planners/' not in f.file:
            continue
        calls = [c for c in f.walk() if (c.get('callee') or '').endswith('::isPathValid')]
        if len(calls) < 2:
            continue
        fresh = set()
        for x in f.walk():
            if x['k'] == 'DeclStmt':
                for d in x.get('decls', []):
                    if d.get('init') and any(y['k'] == 'CXXNewExpr' for y in f.walk(d['init'])):
                        fresh.add('%s#%d' % (d['name'], d['did']))
        junction = None
        for c in f.walk():
            if (c.get('callee') or '').endswith('::copyState') and len(args(f, c)) == 2:
                a0, a1 = f.strip(args(f, c)[0]), f.strip(args(f, c)[1])
                if a0 is not None and a1 is not None and a0['k'] == 'MemberExpr' and a1['k'] == 'MemberExpr' and \
                        a0.get('name') == 'state' and a1.get('name') == 'state':
                    x, y = key(f, a0['ch'][0]), key(f, a1['ch'][0])
                    if x in fresh and y:
                        junction = (x, y)
        if junction is None:
            continue
        got = sorted(key(f, args(f, c)[1]) or '?' for c in calls if len(args(f, c)) >= 2)
        n += 1
        ok = got == sorted(junction)
        rep.add('R01l', f.name, 'junction-validated', ok, f.where(calls[0]),
                'isPathValid on the junction node %s and on %s' % (junction[0].split('#')[0], junction[1].split('#')[0]) if ok else
                'the solution is extracted after isPathValid on %s, but the junction is %s -> %s: the joining motion is not validated'
                % ([g.split('#')[0] for g in got], junction[0].split('#')[0], junction[1].split('#')[0]))
    rep.require_count('R01l', 'junction validations', n, 3)


def r01m(rep, F):
    rep.rule('R01m', 'delegating planners: a function that runs another planner (P->solve(...), P not this) and re-registers its path as an '
                     'exact solution (AnytimePathShortening::addPath, or addSolutionPath with approximate == false) does so only inside an '
                     'if whose condition compares the returned status with EXACT_SOLUTION (or asks hasExactSolution()); PlannerStatus\'s '
                     'operator bool is also true for APPROXIMATE_SOLUTION')
    n = 0
    for f in F.functions:
        if not f.body or '/planners/' not in f.file:
            continue
        sub = [c for c in f.walk() if (c.get('callee') or '').endswith('Planner::solve') and c['ch'] and
               (f.strip(c['ch'][0]) or {}).get('k') != 'CXXThisExpr']
        if not sub:
            continue
        regs = []
        for c in f.walk():
            cal = c.get('callee') or ''
            if cal.endswith('AnytimePathShortening::addPath'):
                regs.append(c)
            elif cal.endswith('ProblemDefinition::addSolutionPath') and len(args(f, c)) >= 2:
                a1 = f.strip(args(f, c)[1])
                if a1 is not None and a1['k'] == 'CXXBoolLiteralExpr' and not a1['v']:
                    regs.append(c)
        for r in regs:
            ok = False
            for anc in f.ancestors(r['id']):
                if anc['k'] == 'IfStmt' and anc.get('cond') and any(x['id'] == r['id'] for x in f.walk(anc['then'])):
                    names = [x.get('name') for x in f.walk(anc['cond']) if x['k'] == 'DeclRefExpr']
                    eq = any((x['k'] == 'BinaryOperator' and x.get('op') == '==') or (x['k'] == 'CXXOperatorCallExpr' and x.get('oop') == '==')
                             for x in f.walk(anc['cond']))
                    exact_q = any((x.get('callee') or '').endswith('::hasExactSolution') for x in f.walk(anc['cond']))
                    if ('EXACT_SOLUTION' in names and eq) or exact_q:
                        ok = True
            n += 1
            rep.add('R01m', f.name, 'exact-only@%d' % len([1 for o in rep.obl if o['rule'] == 'R01m' and o['function'] == f.name]), ok, f.where(r),
                    'registered under status == EXACT_SOLUTION' if ok else
                    'the sub-planner\'s path is registered as an exact solution without a test for EXACT_SOLUTION: an approximate path of the '
                    'sub-planner becomes an "exact" solution that does not reach the goal')
    rep.require_count('R01m', 'delegated registrations', n, 1)


# ---------------------------------------------------------------------------------------------------------------
class _UF:
    def __init__(self):
        self.p = {}

    def find(self, x):
        self.p.setdefault(x, x)
        while self.p[x] != x:
            self.p[x] = self.p[self.p[x]]
            x = self.p[x]
        return x

    def union(self, a, b):
        if a is not None and b is not None:
            self.p[self.find(a)] = self.find(b)


def _sfp(f, nid):
    n = f.strip(nid)
    return f.fp(n['id']) if n is not None else None


def _may_alias(f, checks):
    """flow-insensitive may-equality of state / node expressions: copyState(a, b), pointer initialisations and assignments (both
    alternatives of a ternary), and for a 3-argument motion check the last-valid state, which is a prefix end of the checked motion"""
    uf = _UF()

    def join(t, rid):
        r = f.strip(rid)
        if r is None or r['k'] in ('CXXNewExpr', 'CXXNullPtrLiteralExpr', 'GNUNullExpr'):
            return
        if r['k'] == 'ConditionalOperator':
            join(t, r['ch'][1])
            join(t, r['ch'][2])
        else:
            uf.union(t, f.fp(r['id']))

    for x in f.walk():
        if (x.get('callee') or '').endswith('::copyState') and len(args(f, x)) == 2:
            join(_sfp(f, args(f, x)[0]), args(f, x)[1])
        elif x['k'] == 'DeclStmt':
            for d in x.get('decls', []):
                if d.get('init') and (d.get('ty') or '').rstrip().endswith('*'):
                    join('%s#%d' % (d['name'], d['did']), d['init'])
        elif x['k'] == 'BinaryOperator' and x.get('op') == '=':
            t = f.strip(x['ch'][0])
            if t is not None and (t.get('ty') or '').rstrip().endswith('*') and not (t['k'] == 'MemberExpr' and t.get('name') in ('parent', 'parent_')):
                join(f.fp(t['id']), x['ch'][1])
    for c in checks:
        a = args(f, c)
        if len(a) == 3:
            uf.union(_sfp(f, a[2]) + '.first', _sfp(f, a[1]))
    return uf


def _state_classes(uf, node_fp):
    out = {uf.find(node_fp)}
    root = uf.find(node_fp)
    for k in list(uf.p):
        if uf.find(k) == root:
            for sfx in ('.state', '.state_'):
                out.add(uf.find(k + sfx))
    for sfx in ('.state', '.state_'):
        out.add(uf.find(node_fp + sfx))
    return out


PAIR_EXCEPTIONS = {
    (G + 'LBKPIECE1::isPathValid', 'reAdd'): 'a motion detached by removeMotion is re-attached to the parent it was validated against earlier in the same walk',
}


def r01n(rep, F):
    rep.rule('R01n', 'the motion checked is the motion linked: in every function of a (non-lazy) geometric planner that both checks motions and '
                     'links tree nodes, each link X->parent = P -- written directly or through a helper of the planner that links two of its '
                     'parameters -- has a motion check in the same function whose two arguments are, up to the function\'s own aliases '
                     '(copyState, pointer copies, the last-valid state of a 3-argument check), the states (or nodes) of P and X.  A check of '
                     'some other pair followed by this link admits an edge nobody validated')
    W = P.check_wrappers(F)
    fns = [f for f in F.functions if f.file.endswith('.cpp') and '/geometric/planners/' in f.file and f.body and not f.name.endswith('::getPlannerData')]

    def is_check(c):
        return (c.get('callee') or '').endswith('::checkMotion') or c.get('callee') in W

    # helper summaries: a function without its own motion check that links parameter i under parameter j
    linkers = {}
    for f in fns:
        if any(is_check(c) for c in f.walk()):
            continue
        pk = {'%s#%d' % (p['name'], p['did']): i for i, p in enumerate(f.params)}
        for sid, kind in link_sites(f).items():
            if kind != 'parent':
                continue
            n = f.nodes[sid]
            X, Pp = _sfp(f, f.strip(n['ch'][0])['ch'][0]), _sfp(f, n['ch'][1])
            if X in pk and Pp in pk:
                linkers[f.name] = (pk[X], pk[Pp])
    rep.extra['linking_helpers'] = sorted(linkers)
    n_ok = 0
    for f in fns:
        base = (f.record or '').split('::(lambda')[0]
        if any(base == l or base.startswith(l + '::') for l in LAZY):
            continue
        checks = [c for c in f.walk() if is_check(c)]
        if not checks:
            continue
        pairs = []
        for sid, kind in sorted(link_sites(f).items()):
            if kind == 'parent':
                n = f.nodes[sid]
                pairs.append((_sfp(f, f.strip(n['ch'][0])['ch'][0]), _sfp(f, n['ch'][1]), n))
        for c in f.walk():
            if c.get('callee') in linkers and len(args(f, c)) > max(linkers[c['callee']]):
                i, j = linkers[c['callee']]
                pairs.append((_sfp(f, args(f, c)[i]), _sfp(f, args(f, c)[j]), c))
        if not pairs:
            continue
        uf = _may_alias(f, checks)
        for (X, Pp, n) in pairs:
            if X is None or Pp is None:
                continue
            role = 'linked=checked[%s<-%s]' % (nofp(X), nofp(Pp))
            if (f.name, nofp(X)) in PAIR_EXCEPTIONS:
                rep.undecided('R01n', f.name, role, PAIR_EXCEPTIONS[(f.name, nofp(X))])
                continue
            cx, cp = _state_classes(uf, X), _state_classes(uf, Pp)
            hit = None
            for c in checks:
                a = args(f, c)
                if len(a) < 2:
                    continue
                ca, cb = uf.find(_sfp(f, a[0])), uf.find(_sfp(f, a[1]))
                if (ca in cp and cb in cx) or (ca in cx and cb in cp):
                    hit = c
                    break
            n_ok += 1
            rep.add('R01n', f.name, role, hit is not None, f.where(n),
                    'validated by the check at line %d' % f.line(hit) if hit is not None else
                    '%s is linked under %s, but no motion check in this function tests that pair (checked: %s): the edge is admitted on the '
                    'strength of a check of a different motion' % (nofp(X), nofp(Pp), '; '.join(
                        '(%s, %s)' % (nofp(_sfp(f, args(f, c)[0]) or '?'), nofp(_sfp(f, args(f, c)[1]) or '?')) for c in checks if len(args(f, c)) >= 2)[:300]))
    rep.require_count('R01n', 'links matched with their motion check', n_ok, 1)


# ---------------------------------------------------------------------------------------------------------------
class ChainInterp(fd.Interp):
    """PRM::expandRoadmap after randomBounceMotion: vertices are abstract chain positions (-1 = the vertex the walk started from,
    k = the vertex created for workStates[k]); records the (position, position) pairs handed to boost::add_edge"""

    def __init__(self, fn, same_component):
        super().__init__(fn)
        self.same = same_component
        self.edges = []
        self.fresh = 0

    def load(self, n, env):
        return ('opaque', self.fn.fp(n['id']))

    def store(self, lhs, value, env):
        # stateProperty_[m] = cloneState(workStates[i]) gives vertex m its chain position; other property maps are irrelevant here
        if lhs is not None and lhs.get('callee', '').endswith('operator[]') or (lhs is not None and lhs['k'] == 'CXXOperatorCallExpr' and lhs.get('oop') == '[]'):
            base = self.fn.fp(lhs['ch'][-2]) if len(lhs['ch']) >= 2 else ''
            idx = self.ev(lhs['ch'][-1], env)
            if 'stateProperty_' in base and isinstance(idx, dict) and isinstance(value, tuple) and value[0] == 'state':
                idx['pos'] = value[1]
            return
        raise AnalysisBroken('R01o: store to %s in expandRoadmap' % (self.fn.fp(lhs['id']) if lhs else '?'))

    def call(self, n, env):
        c = n.get('callee') or ''
        a = args(self.fn, n)
        if n['k'] == 'CXXOperatorCallExpr' and n.get('oop') == '[]':
            base = self.fn.fp(n['ch'][-2])
            idx = self.ev(n['ch'][-1], env)
            if 'workStates' in base:
                return ('work', idx)
            if 'stateProperty_' in base.split('(')[-1] or 'stateProperty_' in base:
                return ('stateof', idx.get('pos') if isinstance(idx, dict) else None)
            return ('opaque', base)
        if n['k'] == 'CXXOperatorCallExpr' and n.get('oop') == '=' and len(n['ch']) == 2:
            v = self.ev(n['ch'][1], env)
            self.assign(self.fn.strip(n['ch'][0]), v, env)
            return v
        if c.endswith('::cloneState'):
            w = self.ev(a[0], env)
            if isinstance(w, tuple) and w[0] == 'work':
                return ('state', w[1])
            return ('opaque', 'state')
        if c == 'boost::add_vertex':
            self.fresh += 1
            return {'pos': None, 'id': self.fresh}
        if c.endswith('PRM::addMilestone'):
            st = self.ev(a[0], env)
            self.fresh += 1
            return {'pos': st[1] if isinstance(st, tuple) and st[0] == 'state' else None, 'id': self.fresh}
        if c == 'boost::add_edge':
            x, y = self.ev(a[0], env), self.ev(a[1], env)
            self.edges.append((x.get('pos') if isinstance(x, dict) else None, y.get('pos') if isinstance(y, dict) else None))
            return ('opaque', 'edge')
        if c.endswith('PRM::sameComponent'):
            return self.same
        for x in a:   # evaluate arguments for their effects, the result is irrelevant to the chain
            try:
                self.ev(x, env)
            except AnalysisBroken:
                pass
        return ('opaque', c)

    def ev(self, nid, env):
        n = self.fn.nodes.get(nid)
        if n is not None and n['k'] in ('CXXConstructExpr', 'CXXTemporaryObjectExpr') and len(n['ch']) != 1:
            return ('opaque', 'object')
        return super().ev(nid, env)


def r01o(rep, F):
    rep.rule('R01o', 'PRM::expandRoadmap: randomBounceMotion validates the walk v -> w[0] -> w[1] -> ... -> w[s] step by step, so the roadmap '
                     'edges built from it must join consecutive walk states only.  The block is evaluated over abstract chain positions for '
                     'every walk length 1..4 and both answers of sameComponent: the pairs given to add_edge are exactly the consecutive '
                     'pairs (the closing pair may be skipped only for a one-state walk already in the same component)')
    fs = [f for f in F.by_name.get(G + 'PRM::expandRoadmap', []) if f.body and len(f.params) == 2]
    if not fs:
        raise AnalysisBroken('R01o: PRM::expandRoadmap(ptc, workStates) not found')
    f = fs[0]
    blk = sdecl = vdecl = None
    for x in f.walk():
        if x['k'] == 'DeclStmt':
            for d in x.get('decls', []):
                ini = f.strip(d['init']) if d.get('init') else None
                if ini is not None and (ini.get('callee') or '').endswith('::randomBounceMotion'):
                    sdecl = d
                    vn = f.strip(args(f, ini)[1])
                    # the start of the walk is stateProperty_[v]
                    vdecl = f.strip(vn['ch'][-1]) if vn is not None and vn['ch'] else None
    if sdecl is None or vdecl is None or vdecl['k'] != 'DeclRefExpr':
        raise AnalysisBroken('R01o: the randomBounceMotion call of expandRoadmap was not recognised')
    skey = '%s#%d' % (sdecl['name'], sdecl['did'])
    vkey = '%s#%d' % (vdecl['name'], vdecl['did'])
    for x in f.walk():
        if x['k'] == 'IfStmt' and key(f, (f.strip(x['cond']) or {'ch': [0]})['ch'][0]) == skey:
            blk = x
    if blk is None:
        raise AnalysisBroken('R01o: the if (s > 0) block of expandRoadmap was not recognised')
    bad = None
    runs = 0
    for s in (1, 2, 3, 4):
        for same in (True, False):
            it = ChainInterp(f, same)
            env = {skey: s, vkey: {'pos': -1, 'id': 0}}
            try:
                it.ex(blk['id'], env)
            except fd.Return:
                pass
            runs += 1
            want = [(k - 1, k) for k in range(0, s)]
            got = it.edges
            last = s - 1
            ok = sorted(got) == sorted(want) or (s == 1 and same and got == [])
            if not ok and bad is None:
                bad = 'for a walk of %d state(s) (sameComponent = %s) the edges join chain positions %s; the validated steps are %s' % (
                    s, same, got, want)
    rep.add('R01o', f.name, 'walk-edges-consecutive', bad is None, f.where(blk), bad or 'edges equal the validated steps on %d abstract runs' % runs)
    rep.require_count('R01o', 'random-walk expansions', 1, 1)


class PrefixTarget(paths.Client):
    """auto = fingerprint of the state lv.first designates (None: unknown / stale); checks = [(call id, auto, fp of 2nd arg, path)]"""
    track = 'none'

    def __init__(self, fn, lvkey):
        self.lv = lvkey
        self.checks = []

    def init(self, fn):
        return None

    def _vars(self, fp):
        return set(re.findall(r'[A-Za-z_]\w*#\d+', fp or ''))

    def on_node(self, fn, node, auto, ctx):
        k = node['k']
        if k == 'DeclStmt':
            for d in node.get('decls', []):
                if '%s#%d' % (d['name'], d['did']) == self.lv and d.get('init'):
                    ini = fn.strip(d['init'])
                    while ini is not None and ini['k'] in ('CXXConstructExpr', 'CallExpr', 'CXXTemporaryObjectExpr', 'InitListExpr') and \
                            len([c for c in ini['ch'] if c]) == 1:
                        ini = fn.strip(ini['ch'][0])
                    if ini is not None and len(ini['ch']) >= 2:
                        a0 = ini['ch'][-2] if ini.get('callee') == 'std::make_pair' or ini['k'] != 'CallExpr' else ini['ch'][-2]
                        return nofp_keep(fn.fp(a0))
                    return None
        w = None
        if k == 'BinaryOperator' and node.get('op') == '=':
            w = node
        if w is not None:
            t = fn.strip(w['ch'][0])
            if t is not None and t['k'] == 'MemberExpr' and t.get('name') == 'first' and key(fn, t['ch'][0]) == self.lv:
                return nofp_keep(fn.fp(w['ch'][1]))
        # a write to a variable the designation mentions makes it stale (e.g. the index of states[j])
        if auto is not None and k in ('BinaryOperator', 'CompoundAssignOperator', 'UnaryOperator') and \
                node.get('op') in ('=', '+=', '-=', '++', '--') and node['ch']:
            kk = key(fn, node['ch'][0])
            if kk and kk in self._vars(auto):
                return None
        if node.get('callee') in P.CHECK_CALLEES and len(args(fn, node)) >= 3 and key(fn, args(fn, node)[2]) == self.lv:
            self.checks.append((node['id'], auto, nofp_keep(fn.fp(args(fn, node)[1])), ctx.path()))
        return auto


def nofp_keep(s):
    return s


def r01r(rep, F):
    rep.rule('R01r', 'validated-prefix target: where a 3-argument motion check checkMotion(a, b, lv) is used so that a failed check '
                     'still keeps the candidate (the verdict is ignored or or-ed with lv.second > eps) and the function never reads '
                     'lv.first afterwards -- so the truncated state can only arrive in b itself -- lv.first designates b at the call '
                     'on every path (pair constructed from b, or lv.first = b with no later change of b\'s index).  Otherwise the '
                     'validator truncates some other storage and the raw, unvalidated candidate is linked (KPIECE1, BKPIECE1, STRIDE, '
                     'PDST, SpaceInformation::randomBounceMotion whose walk PRM and QMP turn into roadmap edges)')
    n = 0
    fns = [f for f in F.functions if f.body and f.file.endswith('.cpp') and ('/geometric/planners/' in f.file or '/multilevel/' in f.file or
                                                                            f.file.endswith('base/src/SpaceInformation.cpp'))]
    for f in fns:
        for c in [x for x in f.walk() if x.get('callee') in P.CHECK_CALLEES and len(args(f, x)) >= 3]:
            lvk = key(f, args(f, c)[2])
            if lvk is None:
                continue
            did = int(lvk.split('#')[1])
            if any(p['did'] == did for p in f.params):
                continue            # forwarding wrapper: the caller owns the pair
            # reads of lv.first after the call (variant with separate storage: the planner copies from lv.first itself)
            line = f.line(c)
            reads = [m for m in f.walk() if m['k'] == 'MemberExpr' and m.get('name') == 'first' and m['ch'] and key(f, m['ch'][0]) == lvk and
                     not (f.nodes.get(f.parent.get(m['id'])) or {}).get('op') == '=' and f.line(m) >= line and m['id'] not in
                     {z['id'] for z in f.walk(c['id'])}]
            # `lv.first = x` has the MemberExpr as its left operand: exclude pure stores
            reads = [m for m in reads if not any(a['k'] == 'BinaryOperator' and a.get('op') == '=' and f.strip(a['ch'][0]) is not None and
                                                 f.strip(a['ch'][0])['id'] == m['id'] for a in f.ancestors(m['id']))]
            if reads:
                continue
            cl = PrefixTarget(f, lvk)
            paths.run_function(f, cl, F)
            mine = [x for x in cl.checks if x[0] == c['id']]
            if not mine:
                continue
            if all(x[1] == 'null' for x in mine):
                continue            # no last-valid state requested (only the fraction is used)
            n += 1
            bad = [x for x in mine if x[1] != x[2]]
            rep.add('R01r', f.name, 'prefix-target-is-candidate#%d' % f.line(c) if False else 'prefix-target-is-candidate', not bad, f.where(c),
                    'lv.first designates the candidate %s at the check' % nofp(mine[0][2]) if not bad else
                    'the check truncates into %s while the candidate that is kept is %s: after a failed check the raw candidate, whose '
                    'motion was just rejected, is used' % (nofp(bad[0][1]) if bad[0][1] else 'a stale / unknown state', nofp(bad[0][2])),
                    bad[0][3] if bad else None)
    rep.require_count('R01r', 'validated-prefix checks', n, 5)


APPENDS = ('PathGeometric::append', 'PathControl::append')


def _nearest_loop(f, nid):
    return next((a['id'] for a in f.ancestors(nid) if a['k'] in ('ForStmt', 'WhileStmt', 'DoStmt', 'CXXForRangeStmt')), None)


def _self_step(f, lp):
    """locals X with an assignment X = <expression rooted at X> in this loop's own body or increment (not in a nested loop):
    X = X->parent, X = X->getParent(), pos = prev[pos]"""
    out = {}
    for root in (lp.get('body'), lp.get('inc')):
        if not root:
            continue
        for n in f.walk(root):
            if n['k'] == 'BinaryOperator' and n.get('op') == '=' and _nearest_loop(f, n['id']) == lp['id']:
                l = f.strip(n['ch'][0])
                if l is None or l['k'] not in ('DeclRefExpr', 'MemberExpr') or f.fp(l['id']).startswith('this.'):
                    continue
                k = f.fp(l['id'])
                if '#' in k and k in f.fp(n['ch'][1]):
                    out[k] = n
    return out


def r01w(rep, F, rule='R01w', pat=('/geometric/planners/', '/multilevel/'), frozen=33):
    rep.rule(rule, 'the reported path is assembled root first: a node list filled by walking parent links from a solution node (L.push_back(X); '
                   'X = X->parent) holds the leaf first and the tree root last, so (a) the first list appended to a path is traversed '
                   'backwards (decreasing index or reverse iterator) and (b) a second list -- the other tree of a bidirectional planner -- '
                   'forwards, so that the path runs root, ..., leaf, leaf, ..., root; (c) a loop that appends while walking parent or '
                   'predecessor links (PRM, SPARS, the multilevel graph) is followed by reverse() on the same path.  std::reverse on the '
                   'list flips its orientation.  A path assembled the other way round starts at the goal (or jumps from a leaf to the '
                   'other tree\'s root): it has the same states, the same length in a symmetric space and passes check(), but it is not a '
                   'path from a start state to the goal')
    n = 0
    for f in F.functions:
        if not f.body or not f.file.endswith('.cpp') or not any(q in f.file for q in pat):
            continue
        loops = [x for x in f.walk() if x['k'] in ('WhileStmt', 'ForStmt', 'DoStmt', 'CXXForRangeStmt') and x.get('body')]
        orient = {}          # list key -> 'leaf-first'
        events = {}          # path key -> [(line, kind, detail)]
        for lp in loops:
            if lp['k'] == 'CXXForRangeStmt':
                continue
            steps = _self_step(f, lp)
            if not steps:
                continue
            for c in f.walk(lp['body']):
                cal = c.get('callee') or ''
                if _nearest_loop(f, c['id']) != lp['id']:
                    continue
                if cal.endswith('::push_back') and len(args(f, c)) == 1 and any(k in f.fp(args(f, c)[0]) for k in steps):
                    L = f.strip(c['ch'][0]) if c['k'] == 'CXXMemberCallExpr' else None
                    lk = nofp(f.fp(L['id'])) if L is not None else None
                    if lk:
                        orient[lk] = 'leaf-first'
                elif cal.endswith(APPENDS) and any(k in f.fp(args(f, c)[0]) for k in steps):
                    pk = f.fp(c['ch'][0])
                    events.setdefault(pk, []).append((f.line(lp), 'LR', 'appends while walking the links', lp))
        # std::reverse(L.begin(), L.end())
        flips = []
        for c in f.walk():
            if (c.get('callee') or '') == 'std::reverse' and c['ch']:
                m = re.search(r'begin\((\w[\w.]*)\)', nofp(f.fp(c['ch'][-2] if len(c['ch']) >= 2 else c['ch'][0])))
                if m:
                    flips.append((f.line(c), m.group(1)))
        for lp in loops:
            apps = [c for c in f.walk(lp['body']) if (c.get('callee') or '').endswith(APPENDS) and
                    next((a['id'] for a in f.ancestors(c['id']) if a['k'] in ('ForStmt', 'WhileStmt', 'DoStmt', 'CXXForRangeStmt')), None) == lp['id']]
            if not apps:
                continue
            a0 = nofp(f.fp(args(f, apps[0])[0]))
            pk = f.fp(apps[0]['ch'][0])
            lst, fwd = None, None
            if lp['k'] == 'CXXForRangeStmt':
                lst = nofp(f.fp(lp['range'])) if lp.get('range') else None
                fwd = True
            elif lp['k'] == 'ForStmt':
                idx, start, cond, stride = for_loop(f, lp)
                m = re.search(r'operator\[\]\((\w[\w.]*),\(?%s' % re.escape(nofp(idx)), a0) if idx is not None else None
                if m and stride in (1, -1):
                    lst, fwd = m.group(1), stride == 1
                elif 'reverse_iterator::operator*' in a0 and lp.get('init'):
                    m = re.search(r'rbegin\((\w[\w.]*)\)', nofp(f.fp(lp['init'])))
                    if m:
                        lst, fwd = m.group(1), False
            if lst is None or lst not in orient:
                continue
            nflip = len([1 for (ln, l) in flips if l == lst and ln < f.line(lp)])
            leaf_first = (nflip % 2 == 0)
            seq = 'LR' if leaf_first == fwd else 'RL'
            events.setdefault(pk, []).append((f.line(lp), seq, 'list %s traversed %s' % (lst, 'forwards' if fwd else 'backwards'), lp))
        for pk, evs in events.items():
            evs.sort(key=lambda e: e[0])
            revs = [f.line(c) for c in f.walk() if (c.get('callee') or '').endswith(('PathGeometric::reverse', 'PathControl::reverse'))
                    and c['k'] == 'CXXMemberCallExpr' and f.fp(c['ch'][0]) == pk and f.line(c) >= evs[-1][0]]
            seqs = [e[1] for e in evs]
            if revs:
                seqs = [{'LR': 'RL', 'RL': 'LR'}[q] for q in reversed(seqs)]
            n += 1
            ok = seqs in (['RL'], ['RL', 'LR'])
            if ok:
                det = 'root first: ' + '; then '.join(e[2] for e in evs) + (' ; then reverse()' if revs else '')
            elif seqs[0] == 'LR' and len(seqs) == 1:
                det = ('%s, i.e. leaf first and the tree root last%s: the reported path starts at the solution node and ends at the root of the '
                       'tree' % (evs[0][2], '' if not revs else ' after reverse()'))
            else:
                det = ('the pieces appended to %s run %s (R = root, L = leaf): the path must run root..leaf then leaf..root' %
                       (nofp(pk), ' + '.join('%s..%s' % (q[0], q[1]) for q in seqs)))
            rep.add(rule, f.name, 'assembly-orientation:%s@%d' % ((re.findall(r'(\w+)#\d+', pk) or re.findall(r'this\.(\w+)', pk) or ['path'])[-1], [k for k in sorted(events, key=lambda q: events[q][0][0])].index(pk)), ok, f.where(evs[0][3]), det)
    rep.require_count(rule, 'path assemblies from parent-walk lists', n, frozen)


def _subscripts(f, root, fam):
    """[(array key, index node id, is_write)] for subscripts of family members under root"""
    out = []
    for n in f.walk(root):
        if n['k'] == 'CXXOperatorCallExpr' and n.get('oop') == '[]' or n['k'] == 'ArraySubscriptExpr':
            a = key(f, n['ch'][0])
            if a in fam:
                par = f.nodes.get(f.parent.get(n['id']))
                while par is not None and par['k'] in ('ParenExpr', 'ImplicitCastExpr'):
                    par = f.nodes.get(f.parent.get(par['id']))
                w = par is not None and ((par['k'] in ('BinaryOperator', 'CompoundAssignOperator') and par.get('op', '=').endswith('=') and
                                          par.get('op') not in ('==', '!=', '<=', '>=') and f.strip(par['ch'][0]) is f.strip(n['id'])) or
                                         (par['k'] == 'CXXOperatorCallExpr' and par.get('oop') == '=' and f.strip(par['ch'][0]) is f.strip(n['id'])))
                out.append((a, n['ch'][1], bool(w)))
    return out


def r01x(rep, F):
    rep.rule('R01x', 'parallel arrays are indexed together: local vectors sized by one expression (costs.resize(nbh.size()), '
                     'valid.resize(nbh.size()), ...) describe the same neighbour at the same index.  In a loop body that WRITES an element of '
                     'one of them (valid[k] = 1: "the motion to neighbour k was checked and is valid"), every other subscript of the family in '
                     'that body uses the same index expression; arrays that hold indices into the family (a sorted permutation) are not '
                     'members.  A verdict cached at position i for the neighbour at position perm[i] marks an unchecked motion as valid, and '
                     'the rewiring step links it without a motion check')
    n = 0
    for f in F.functions:
        if not f.body or not f.file.endswith('.cpp') or '/geometric/planners/' not in f.file:
            continue
        sized = {}
        for c in f.walk():
            cal = c.get('callee') or ''
            if cal.endswith(('vector::resize', 'vector::assign')) and c['k'] == 'CXXMemberCallExpr' and args(f, c):
                a = key(f, c['ch'][0])
                szn = f.strip(args(f, c)[0])
                if a and szn is not None and (szn.get('callee') or '').endswith('::size'):
                    base = key(f, szn['ch'][0])
                    if base:
                        sized.setdefault(base, set()).add(a)
        for base, fam in sized.items():
            fam = set(fam) | {base}
            if len(fam) < 3:
                continue
            # permutation arrays: a family member whose element is used as the index of another member
            perms = set()
            for (a, idx, w) in _subscripts(f, None, fam):
                for (a2, idx2, w2) in _subscripts(f, idx, fam):
                    perms.add(a2)
            members = fam - perms
            loops = [x for x in f.walk() if x['k'] in ('ForStmt', 'WhileStmt', 'DoStmt', 'CXXForRangeStmt') and x.get('body')]
            for lp in loops:
                subs = [(a, idx, w) for (a, idx, w) in _subscripts(f, lp['body'], members) if _nearest_loop(f, idx) == lp['id']]
                writes = [t for t in subs if t[2]]
                if not writes or len({a for a, _, _ in subs}) < 2:
                    continue
                n += 1
                fps = {}
                for (a, idx, w) in subs:
                    fps.setdefault(nofp(f.fp(idx)), []).append((a, w))
                ok = len(fps) == 1
                k = len([1 for o in rep.obl if o['rule'] == 'R01x' and o['function'] == f.name])
                rep.add('R01x', f.name, 'parallel-index#%d' % k, ok, f.where(lp),
                        'every subscript of {%s} in the loop uses index %s' % (', '.join(sorted(nofp(m) for m in members)), list(fps)[0]) if ok else
                        'in one loop body the arrays sized by %s.size() are indexed differently: %s -- an element written for one neighbour is read '
                        'back for another' % (nofp(base), '; '.join('%s[%s]' % ('/'.join(sorted({nofp(a) + ('(written)' if w else '') for a, w in v})), kx)
                                                                      for kx, v in sorted(fps.items()))))
    rep.require_count('R01x', 'loops that write parallel arrays', n, 5)


def r01A(rep, F, rule='R01A', pat='/geometric/planners/sst/'):
    rep.rule(rule, 'the approximate difference and the stored path move together: where solve() assembles the reported path from a member vector '
                   '(prevSolution_[i]) and reports a local difference with it (setApproximate(approxdif)), every block that assigns the difference '
                   'also rebuilds that vector (clear + push_back) -- the pair (difference, path) always describes one motion.  A rebuild under '
                   'a narrower condition than the assignment leaves an older path (e.g. an exact one kept from an earlier call) attached to a '
                   'status, flag and difference that belong to another')
    n = 0
    for f in F.functions:
        if not f.body or pat not in f.file or not f.name.endswith('::solve'):
            continue
        V = None
        for c in f.walk():
            if (c.get('callee') or '').endswith(APPENDS):
                m = re.search(r'operator\[\]\(this\.(\w+),', nofp(f.fp(args(f, c)[0])))
                if m:
                    V = m.group(1)
        D = None
        for c in f.walk():
            if (c.get('callee') or '').endswith('::setApproximate') and args(f, c):
                D = key(f, args(f, c)[0])
            if (c.get('callee') or '').endswith('ProblemDefinition::addSolutionPath') and len(args(f, c)) >= 3 and key(f, args(f, c)[2]):
                D = key(f, args(f, c)[2])
        if V is None or D is None:
            continue
        for x in f.walk():
            if x['k'] == 'BinaryOperator' and x.get('op') == '=' and key(f, x['ch'][0]) == D:
                blk = next((a for a in f.ancestors(x['id']) if a['k'] == 'CompoundStmt'), None)
                if blk is None:
                    continue
                n += 1
                cleared = any((c.get('callee') or '').endswith('::clear') and nofp(f.fp(c['ch'][0])) == 'this.' + V for c in f.walk(blk['id']))
                filled = any((c.get('callee') or '').endswith('::push_back') and nofp(f.fp(c['ch'][0])) == 'this.' + V for c in f.walk(blk['id']))
                ok = cleared and filled
                k = len([1 for o in rep.obl if o['rule'] == rule and o['function'] == f.name])
                rep.add(rule, f.name, 'difference-with-path#%d' % k, ok, f.where(x),
                        '%s is rebuilt in the block that assigns %s' % (V, nofp(D)) if ok else
                        '%s is assigned here but %s, from which the reported path is assembled, is not rebuilt in the same block: the reported '
                        'difference and the reported path can describe different motions' % (nofp(D), V))
    rep.require_count(rule, 'assignments of the reported approximate difference', n, 1)


def run(rep):
    units = P.geometric_units() + P.multilevel_units() + P.base_units() + [facts.src('base', 'goals', 'src', g) for g in
                                                                          ('GoalRegion.cpp', 'GoalState.cpp', 'GoalStates.cpp')]
    F = facts.load_units(units)
    rep.units.update(units)
    rep.functions.update(f.key for f in F.functions if f.file.endswith('.cpp'))
    r01a(rep, F)
    r01b(rep, F)
    # R01c: shared with C03's input-state rule
    c03.r03h(rep, F)
    rep.rule_text['R01c'] = 'start and goal states handed to planners passed satisfiesBounds and isValid (see R03h, evaluated here on the same functions)'
    for o in rep.obl:
        if o['rule'] == 'R03h':
            o['rule'] = 'R01c'
    rep.rule_text.pop('R03h', None)
    solves = [f for f in P.solve_functions(F) if f.name.startswith(('ompl::geometric', 'ompl::multilevel'))]
    must, may = c03.add_summaries(F)
    c03.r03a(rep, F, solves, must, may, rule='R01d', frozen=32)
    r01e(rep, F)
    r01f(rep, F)
    planner_fns = [f for f in F.functions if f.file.endswith('.cpp') and ('/geometric/planners/' in f.file or '/multilevel/' in f.file)]
    c03.r03b(rep, F, planner_fns, rule='R01g', frozen=18)
    r01h(rep, F)
    from rules import c02
    c02.r02f(rep, F, files_pat='/geometric/planners/', rule='R01i', frozen=10)
    r01j(rep, F)
    r01k(rep, F)
    r01l(rep, F)
    r01m(rep, F)
    r01n(rep, F)
    r01o(rep, F)
    r01r(rep, F)
    r01w(rep, F)
    r01x(rep, F)
    r01A(rep, F)
    # R01s: the (best distance / cost, what it belongs to) pairing rule of C04 (R04j), evaluated here over every geometric planner:
    # the reported goal difference and the path / node / flag it describes are updated together
    from rules import c04
    c04.r04j(rep, F)
    rep.rule_text['R01s'] = rep.rule_text.pop('R04j') + '  (C04\'s R04j evaluated over all geometric and multilevel planner units: the goal ' \
        'difference reported with an approximate path belongs to that path)'
    for o in rep.obl:
        if o['rule'] == 'R04j':
            o['rule'] = 'R01s'
    rep.nontrivial = {(('R01s' if r == 'R04j' else r), fn_, role) for (r, fn_, role) in rep.nontrivial}
    rep.broken = [b.replace('R04j', 'R01s') for b in rep.broken]
    # R01v: what a planner registers is what the problem definition reports (C04's R04n under C01's id)
    c04.r04n(rep, F, rule='R01v')
    from rules import c01_informed
    c01_informed.r01p(rep, F)
    c01_informed.r01q(rep, F)
    c01_informed.r01t(rep, F)
    c01_informed.r01u(rep, F)
    c01_informed.r01y(rep, F)
    c01_informed.r01z(rep, F)
