"""C20 -- a fixed seed reproduces single-threaded planning: structural clauses.

R20a single entropy source: every seeding site in the library (an engine's .seed(x), construction of a std random engine with an
     argument, RNG(x), RNG::setSeed / setLocalSeed(x)) takes a value whose data dependences contain no entropy or clock source
     (random_device, rand, time, clock::now, getpid); the one exception is the RNGSeedGenerator constructor, which is the
     documented single source, plus a frozen list of tools outside the quantifier
R20b seed plumbing: RNG::RNG() draws its local seed from the seed generator and seeds generator_ with it; the seed generator's
     firstSeed / setSeed / nextSeed run under its mutex; setSeed stores the first seed only while no seed has been handed out and
     reseeds the sequence generator with the (corrected) seed *parameter* on every path that does not return early; nextSeed marks
     the generator as used and draws from the sequence; RNG::setLocalSeed stores the seed, reseeds generator_ with it and resets
     every member that is a distribution or caches variates (exhaustive against RNG's field table)
R20c no wall-clock in decisions: in planner code (geometric/control planners, multilevel, and the shared geometric/control sources)
     a value read from a clock, or a timed termination condition created inside the library, may flow only into logging and into
     the frozen statistics members; every other use must be in the triaged table (multi-threaded planners, API calls that take a
     duration from the user)
R20d no address-hashed decisions: no traversal (range-for, begin()/end() iteration) of a std::unordered_set / unordered_map whose
     key is a raw pointer hashed by std::hash in planner code, except bodies that only free, erase or insert (order-insensitive)
R20e ordering keys are initialised: every scalar field that an ordering functor (operator()(a, b) of a heap / set / sort
     comparator) reads from its operands -- directly or through one accessor -- is initialised by every constructor of the
     operand's class (member initialiser, default member initialiser or assignment in the constructor)
"""
import re
from engine import facts, sym, paths, lin
from engine.facts import AnalysisBroken, src
from engine.shape import args

RNGU = src('util', 'src', 'RandomNumbers.cpp')
ENTROPY = ('std::random_device', 'rand', 'srand', 'time', 'clock', 'getpid', 'gettimeofday', 'clock_gettime')
CLOCK_SUFFIX = ('::now',)
SEED_EXCEPTIONS = {
    '(anon)::RNGSeedGenerator::RNGSeedGenerator': 'the single documented entropy source: the first seed when the user sets none',
    'ompl::geometric::SPARSdb::addPathToRoadmap': 'experience-database tool (tools/thunder), not a planner in the quantifier; it shuffles with its own engine',
}
# clock-dependent decisions that exist today, each with the reason it is outside the property's quantifier
CLOCK_TABLE = {
    'ompl::geometric::CForest::solve': 'multi-threaded planner (specs_.multithreaded)',
    'ompl::geometric::CForest::newSolutionFound': 'multi-threaded planner; the value is only logged',
    'ompl::geometric::PRM::solve': 'multi-threaded planner: grow/expand phases are time-sliced by design',
    'ompl::geometric::PRM::growRoadmap': 'public API taking a duration from the caller',
    'ompl::geometric::PRM::expandRoadmap': 'public API taking a duration from the caller',
    'ompl::geometric::PRM::constructRoadmap': 'multi-threaded planner: grow/expand phases are time-sliced by design',
    'ompl::geometric::GeneticSearch::solve': 'public API taking a time budget (GAIK)',
    'ompl::geometric::PathSimplifier::simplify': 'public API: simplify(path, double maxTime)',
    'ompl::geometric::PathSimplifier::findBetterGoal': 'public API: findBetterGoal(path, double maxTime, ...)',
    'ompl::base::Planner::solve': 'public API: solve(double solveTime)',
}
STAT_MEMBERS = ('planTime_', 'simplifyTime_', 'lastPlanTime_')
PLANNER_DIRS = ('/geometric/planners/', '/control/planners/', '/multilevel/', '/geometric/src/', '/control/src/', '/base/src/Planner.cpp')


def is_clock(n):
    c = n.get('callee') or ''
    if c.endswith('::now') and ('chrono' in c or 'time' in c or 'clock' in c):
        return True
    return c in ('ompl::time::now',)


def is_entropy(n):
    c = n.get('callee') or ''
    if is_clock(n):
        return True
    if c in ('rand', 'srand', 'time', 'clock', 'getpid', 'gettimeofday', 'clock_gettime', 'random'):
        return True
    return c.startswith('std::random_device')


def local_defs(fn):
    defs = {}
    for n in fn.walk():
        if n['k'] == 'DeclStmt':
            for d in n.get('decls', []):
                if d.get('init'):
                    defs.setdefault(d['did'], []).append(d['init'])
        elif n['k'] in ('BinaryOperator', 'CompoundAssignOperator') and (n.get('op') or '').endswith('=') and n.get('op') not in ('==', '!=', '<=', '>='):
            t = fn.strip(n['ch'][0])
            if t is not None and t['k'] == 'DeclRefExpr':
                defs.setdefault(t['did'], []).append(n['ch'][1])
    # constructor member initialisers
    for i in fn.d.get('inits', []) or []:
        if i.get('did') is not None and i.get('init'):
            defs.setdefault(('field', i['did']), []).append(i['init'])
    return defs


def depends_on(fn, nid, pred, defs, seen=None):
    seen = seen if seen is not None else set()
    for x in fn.walk(nid):
        if pred(x):
            return x
        k = None
        if x['k'] == 'DeclRefExpr':
            k = x.get('did')
        elif x['k'] == 'MemberExpr' and x.get('dk') == 'Field':
            k = ('field', x.get('did'))
        if k in defs and k not in seen:
            seen.add(k)
            for i in defs[k]:
                r = depends_on(fn, i, pred, defs, seen)
                if r is not None:
                    return r
    return None


def r20a(rep, F):
    rep.rule('R20a', 'who-may-seed: for every seeding site in the library -- X.seed(v), construction of a std random engine from v, '
                     'ompl::RNG(v), RNG::setSeed(v), setLocalSeed(v) -- the data-dependence closure of v (through local definitions '
                     'and member initialisers of the same function) contains no call of random_device, rand, time, getpid or a '
                     'clock\'s now().  Exceptions are listed by function with a reason.  A positive example (the seed generator\'s own '
                     'constructor) must be found on every run')
    ENG = re.compile(r'std::(mersenne_twister_engine|linear_congruential_engine|subtract_with_carry_engine|discard_block_engine|'
                     r'shuffle_order_engine|mt19937|minstd_rand|ranlux\w+|default_random_engine)')
    n = 0
    positive = 0
    for fn in F.functions:
        if not fn.file.startswith(facts.REPO + '/src/ompl') or not (fn.body or fn.d.get('inits')):
            continue
        sites = []
        for c in fn.walk():
            cal = c.get('callee') or ''
            if c['k'] == 'CXXMemberCallExpr' and cal.endswith('::seed') and len(c['ch']) == 2:
                sites.append((c, c['ch'][1], cal))
            elif cal in ('ompl::RNG::setSeed', 'ompl::RNG::setLocalSeed') and args(fn, c):
                sites.append((c, args(fn, c)[0], cal))
            elif c['k'] in ('CXXConstructExpr', 'CXXTemporaryObjectExpr') and c['ch'] and \
                    (ENG.match(c.get('ty') or '') or (c.get('callee') or '').startswith('ompl::RNG::RNG')) and \
                    fn.nodes[c['ch'][0]]['k'] != 'CXXDefaultArgExpr' and len(c['ch']) == 1:
                # copy construction from another engine is not a seeding site
                a = fn.strip(c['ch'][0])
                if a is not None and ENG.match((a.get('ty') or '').replace('const ', '')):
                    continue
                sites.append((c, c['ch'][0], 'construct ' + (c.get('ty') or cal)))
        if not sites:
            continue
        defs = local_defs(fn)
        for c, v, what in sites:
            src_ = depends_on(fn, v, is_entropy, defs)
            if src_ is None:
                n += 1
                rep.add('R20a', fn.name, 'seed@%d' % fn.line(c), True, fn.where(c), '%s from a value without an entropy source' % what.split('::')[-1],
                        nontrivial=False)
                continue
            if fn.name in SEED_EXCEPTIONS:
                positive += fn.name.endswith('RNGSeedGenerator::RNGSeedGenerator')
                rep.note('R20a exception %s: %s' % (fn.name, SEED_EXCEPTIONS[fn.name]))
                continue
            n += 1
            rep.add('R20a', fn.name, 'seed@%d' % fn.line(c), False, fn.where(c),
                    '%s is seeded from %s: a second entropy source makes runs with a fixed global seed differ' % (what.split('::')[-1], src_.get('callee')))
    if positive == 0:
        raise AnalysisBroken('R20a: the positive example (RNGSeedGenerator seeding itself from the clock) was not recognised')
    rep.require_count('R20a', 'seeding sites', n, 4)


def fn1(F, name, nparams=None, required=True):
    fs = [f for f in F.by_name.get(name, []) if (f.body or f.d.get('inits')) and (nparams is None or len(f.params) == nparams)]
    if not fs and required:
        raise AnalysisBroken('anchor function vanished: ' + name)
    return fs[0] if fs else None


def holds_lock_first(fn):
    """the first statement declares a std::lock_guard / unique_lock / scoped_lock on rngMutex_"""
    b = fn.nodes[fn.body]
    if not b['ch']:
        return False
    s = fn.nodes[b['ch'][0]]
    if s['k'] != 'DeclStmt' or not s.get('decls'):
        return False
    ty = s['decls'][0].get('ty') or ''
    names = [x.get('name') for x in fn.walk(s['id'])]
    return ('lock_guard' in ty or 'unique_lock' in ty or 'scoped_lock' in ty) and 'rngMutex_' in names


def r20b(rep, F):
    rep.rule('R20b', 'seed plumbing (RandomNumbers.cpp): RNG::RNG() initialises localSeed_ from getRNGSeedGenerator().nextSeed() and '
                     'generator_ from localSeed_; firstSeed / setSeed / nextSeed begin with a lock on rngMutex_; in setSeed the member '
                     'firstSeed_ is assigned the parameter exactly on the path seed > 0 and !someSeedsGenerated_, and every call '
                     'sGen_.seed(x) has x == the seed parameter; nextSeed sets someSeedsGenerated_ and returns sDist_(sGen_); '
                     'setLocalSeed assigns localSeed_, calls generator_.seed(localSeed_) and calls reset() on every field of RNG whose '
                     'type is a distribution or the spherical-data cache')
    G = '(anon)::RNGSeedGenerator'
    # RNG::RNG()
    c = fn1(F, 'ompl::RNG::RNG', 0)
    inits = {i['field']: i for i in c.d.get('inits', [])}
    ok = 'localSeed_' in inits and any((x.get('callee') or '').endswith('::nextSeed') for x in c.walk(inits['localSeed_']['init'])) and \
        'generator_' in inits and any(x.get('name') == 'localSeed_' for x in c.walk(inits['generator_']['init']))
    rep.add('R20b', c.name, 'seed-from-generator', ok, c.where(c.nodes[c.body]) if c.body else '',
            'localSeed_(nextSeed()), generator_(localSeed_)' if ok else 'the default constructor does not take its seed from nextSeed() / does not seed generator_ with it')
    # locks
    for m in ('firstSeed', 'setSeed', 'nextSeed'):
        f = fn1(F, G + '::' + m)
        ok = holds_lock_first(f)
        rep.add('R20b', f.name, 'under-mutex', ok, f.where(f.nodes[f.body]), 'lock on rngMutex_ first' if ok else 'does not start by locking rngMutex_')
    # setSeed decision tree (normal form)
    f = fn1(F, G + '::setSeed')
    seedp = f.params[0]
    calls = [x for x in f.walk() if x['k'] == 'CXXMemberCallExpr' and (x.get('callee') or '').endswith('::seed') and
             any(y.get('name') == 'sGen_' for y in f.walk(x['ch'][0]))]
    ok = bool(calls)
    detail = 'sGen_.seed(seed) with the parameter'
    for x in calls:
        a = f.strip(x['ch'][1])
        if not (a is not None and a['k'] == 'DeclRefExpr' and a.get('did') == seedp['did']):
            ok = False
            detail = 'the sequence generator is reseeded with %s, not with the seed parameter' % f.fp(x['ch'][1])
    rep.add('R20b', f.name, 'reseeds-with-parameter', ok, f.where(calls[0]) if calls else f.where(f.nodes[f.body]),
            detail if ok or calls else 'setSeed never reseeds the sequence generator')
    # firstSeed_ assignment guard
    asg = [x for x in f.walk() if x['k'] == 'BinaryOperator' and x.get('op') == '=' and (f.strip(x['ch'][0]) or {}).get('name') == 'firstSeed_']
    ok = len(asg) == 1 and (f.strip(asg[0]['ch'][1]) or {}).get('did') == seedp['did']
    if ok:
        conds = []
        cur = asg[0]['id']
        for anc in f.ancestors(cur):
            if anc['k'] == 'IfStmt':
                in_then = any(y['id'] == asg[0]['id'] for y in f.walk(anc['then']))
                conds.append((f.fp(anc['cond']), in_then))
        want = sorted([(c_, t) for c_, t in conds])
        flat = ' '.join('%s:%s' % (re.sub(r'#\d+', '', c_), t) for c_, t in want)
        ok = len(conds) == 2 and 'someSeedsGenerated_:False' in flat.replace('this.', '') and re.search(r'seed\s*>\s*0[^:]*:True', flat.replace('(', '').replace(')', '')) is not None
    rep.add('R20b', f.name, 'first-seed-only-before-use', ok, f.where(asg[0]) if asg else f.where(f.nodes[f.body]),
            'firstSeed_ = seed iff seed > 0 and no seed handed out yet' if ok else 'firstSeed_ is not assigned exactly under seed > 0 && !someSeedsGenerated_')
    # zero seed: corrected to a non-zero constant before reseeding
    f2 = f
    zero_fix = [x for x in f2.walk() if x['k'] == 'BinaryOperator' and x.get('op') == '=' and (f2.strip(x['ch'][0]) or {}).get('did') == seedp['did']]
    ok = len(zero_fix) == 1 and (f2.strip(zero_fix[0]['ch'][1]) or {}).get('k') in ('IntegerLiteral', 'ImplicitCastExpr') and \
        lin.lin(f2, zero_fix[0]['ch'][1]) not in (None, {1: 0})
    rep.add('R20b', f.name, 'zero-seed-replaced-by-constant', ok, f.where(zero_fix[0]) if zero_fix else f.where(f.nodes[f.body]),
            'seed 0 becomes a fixed non-zero constant' if ok else 'a zero seed is not replaced by a fixed non-zero constant')
    # nextSeed
    f = fn1(F, G + '::nextSeed')
    sets = [x for x in f.walk() if x['k'] == 'BinaryOperator' and x.get('op') == '=' and (f.strip(x['ch'][0]) or {}).get('name') == 'someSeedsGenerated_'
            and (f.strip(x['ch'][1]) or {}).get('v') in (True, 1)]
    rets = [x for x in f.walk() if x['k'] == 'ReturnStmt' and x['ch']]
    ok = bool(sets) and len(rets) == 1 and {'sDist_', 'sGen_'} <= {y.get('name') for y in f.walk(rets[0]['id'])}
    rep.add('R20b', f.name, 'marks-used-and-draws', ok, f.where(f.nodes[f.body]), 'someSeedsGenerated_ = true; return sDist_(sGen_)' if ok else
            'nextSeed does not mark the generator as used or does not draw from the seeded sequence')
    # setLocalSeed
    f = fn1(F, 'ompl::RNG::setLocalSeed')
    rec = F.record('ompl::RNG')
    need = [fl['name'] for fl in rec['fields'] if 'distribution' in (fl.get('canon') or fl.get('ty') or '') or 'SphericalData' in (fl.get('canon') or '')]
    if len(need) < 3:
        raise AnalysisBroken('R20b: RNG\'s distribution members were not recognised in the record table (%s)' % need)
    resets = set()
    for x in f.walk():
        if (x.get('callee') or '').endswith('::reset') and x['ch']:
            for y in f.walk(x['ch'][0]):
                if y['k'] == 'MemberExpr' and y.get('dk') == 'Field':
                    resets.add(y.get('name'))
    missing = [m for m in need if m not in resets]
    bad_path = None
    if not missing:
        # ... and on every path: a return reached after generator_.seed() but before the resets keeps the cached variates
        class Resets(paths.Client):
            track = 'none'

            def __init__(self):
                self.bad = []

            def init(self, fn):
                return frozenset()

            def on_node(self, fn, node, auto, ctx):
                c = node.get('callee') or ''
                if c.endswith('::reset') and node['ch']:
                    for y in fn.walk(node['ch'][0]):
                        if y['k'] == 'MemberExpr' and y.get('dk') == 'Field':
                            auto = auto | {y.get('name')}
                if c.endswith('::seed') and node['ch'] and any(y.get('name') == 'generator_' for y in fn.walk(node['ch'][0])):
                    auto = auto | {'<seeded>'}
                return auto

            def at_exit(self, fn, ret, auto, ctx):
                if '<seeded>' in auto:
                    m = [x for x in need if x not in auto]
                    if m:
                        self.bad.append((m, ctx.path()))
        cl = Resets()
        paths.run_function(f, cl, F)
        if cl.bad:
            missing, bad_path = cl.bad[0]
    rep.add('R20b', f.name, 'resets-every-distribution', not missing, f.where(f.nodes[f.body]),
            'reset() on %s on every path that reseeds the generator' % ', '.join(need) if not missing else
            'setLocalSeed %s reset %s: a cached variate (e.g. the second Box-Muller value) survives reseeding' %
            ('has a path that reseeds the generator and returns without the' if bad_path else 'does not', ', '.join(missing)), bad_path)
    st = [x for x in f.walk() if x['k'] == 'BinaryOperator' and x.get('op') == '=' and (f.strip(x['ch'][0]) or {}).get('name') == 'localSeed_']
    sd = [x for x in f.walk() if (x.get('callee') or '').endswith('::seed') and any(y.get('name') == 'generator_' for y in f.walk(x['ch'][0]))]
    ok = len(st) == 1 and len(sd) == 1 and (f.strip(sd[0]['ch'][1]) or {}).get('name') in ('localSeed_', f.params[0]['name'])
    rep.add('R20b', f.name, 'stores-and-reseeds', ok, f.where(f.nodes[f.body]), 'localSeed_ = s; generator_.seed(s)' if ok else
            'setLocalSeed does not store the seed and reseed generator_ with it')


def r20f(rep, F):
    rep.rule('R20f', 'every variate generator of an RNG draws from THAT RNG\'s engine: a helper object that owns generators of its own (the '
                     'spherical-data cache: one boost::variate_generator per dimension) holds the engine by pointer or reference, never a '
                     'copy.  A by-value engine is a snapshot taken when the dimension was first used: setLocalSeed() reseeds generator_ but '
                     'the snapshots run on, so the stream after reseeding differs from the first pass')
    n = 0
    for name, rs in sorted(F.records.items()):
        if not name.startswith('ompl::RNG'):
            continue
        for r in rs:
            for fl in r.get('fields', []):
                ty = fl.get('canon') or fl.get('ty') or ''
                for m in re.finditer(r'variate_generator<', ty):
                    depth, eng = 0, ''
                    for ch in ty[m.end():]:
                        if ch == '<':
                            depth += 1
                        elif ch == '>':
                            if depth == 0:
                                break
                            depth -= 1
                        elif ch == ',' and depth == 0:
                            break
                        eng += ch
                    n += 1
                    eng = eng.strip()
                    ok = eng.endswith('*') or eng.endswith('&')
                    rep.add('R20f', name, 'engine-shared:' + fl['name'], ok, r.get('loc', ''),
                            'variate generators hold the engine as %s' % eng if ok else
                            'the variate generators in %s hold the engine BY VALUE (%s): a private copy that setLocalSeed() does not reseed' % (fl['name'], eng))
    rep.require_count('R20f', 'variate-generator members of RNG helper classes', n, 1)


def r20c(rep, F):
    rep.rule('R20c', 'clock discipline in planner code (%s): each value read from a clock (ompl::time::now, chrono now()) and each '
                     'library-created timedPlannerTerminationCondition is followed through local definitions; allowed sinks are '
                     'arguments of the logging call ompl::msg::log, time differences that only reach logging, and the statistics '
                     'members %s; any other use makes the function clock-dependent and it must be in the triaged table (%d entries '
                     'with reasons)' % (', '.join(PLANNER_DIRS), ', '.join(STAT_MEMBERS), len(CLOCK_TABLE)))
    n = 0
    seen_table = set()
    for fn in F.functions:
        if not fn.body or not any(d in fn.file for d in PLANNER_DIRS):
            continue
        srcs = [c for c in fn.walk() if is_clock(c) or (c.get('callee') or '').endswith('base::timedPlannerTerminationCondition')]
        if not srcs:
            continue
        top = fn.name
        lam = fn.d.get('lambda_of')
        name = re.sub(r'::\(lambda.*$', '', fn.name)
        decision = None
        # taint: variables defined from a clock source
        tainted = set()
        changed = True
        defs = local_defs(fn)
        while changed:
            changed = False
            for k, inits in defs.items():
                if k in tainted:
                    continue
                for i in inits:
                    if any(is_clock(x) or (x.get('callee') or '').endswith('timedPlannerTerminationCondition') or
                           (x['k'] == 'DeclRefExpr' and x.get('did') in tainted) for x in fn.walk(i)):
                        tainted.add(k)
                        changed = True
                        break

        def is_tainted_expr(x):
            return is_clock(x) or (x.get('callee') or '').endswith('timedPlannerTerminationCondition') or \
                (x['k'] == 'DeclRefExpr' and x.get('did') in tainted)
        for x in fn.walk():
            if not is_tainted_expr(x):
                continue
            # classify the use by its ancestors
            use = 'value'
            for anc in fn.ancestors(x['id']):
                k = anc['k']
                cal = anc.get('callee') or ''
                if cal == 'ompl::msg::log' or cal.endswith('::log') and 'msg' in cal:
                    use = 'log'
                    break
                if k in ('IfStmt', 'WhileStmt', 'ForStmt', 'DoStmt', 'ConditionalOperator') and anc.get('cond') and \
                        any(y['id'] == x['id'] for y in fn.walk(anc['cond'])):
                    use = 'condition'
                    break
                if k == 'ReturnStmt':
                    use = 'returned'
                    break
                if k == 'DeclStmt':
                    use = 'def'
                    break
                if k in ('BinaryOperator', 'CompoundAssignOperator') and (anc.get('op') or '').endswith('=') and anc.get('op') not in ('==', '!=', '<=', '>='):
                    t = fn.strip(anc['ch'][0])
                    if t is not None and t['k'] == 'DeclRefExpr':
                        use = 'def'
                    elif t is not None and t['k'] == 'MemberExpr' and t.get('name') in STAT_MEMBERS:
                        use = 'stat'
                    else:
                        use = 'stored:' + fn.fp(anc['ch'][0])[:40]
                    break
                if cal and not (cal.startswith('ompl::time::') or cal.startswith('std::chrono') or is_clock(anc) or
                                cal.endswith('timedPlannerTerminationCondition') or cal.endswith('::count') or cal.startswith('std::min') or
                                cal.startswith('std::max') or 'duration' in cal or 'operator' in cal):
                    use = 'passed-to:' + cal.split('(')[0][-50:]
                    break
            if use in ('log', 'def', 'stat', 'value'):
                continue
            decision = (x, use)
            break
        if decision is None:
            n += 1
            rep.add('R20c', name, 'clock-use@%d' % fn.line(srcs[0]), True, fn.where(srcs[0]), 'clock values reach logging / statistics only', nontrivial=False)
            continue
        if name in CLOCK_TABLE:
            seen_table.add(name)
            rep.note('R20c triaged %s: %s' % (name, CLOCK_TABLE[name]))
            continue
        n += 1
        rep.add('R20c', name, 'clock-decides:' + decision[1].split(':')[0], False, fn.where(decision[0]),
                'a clock value is used as %s: the planner\'s behaviour depends on wall-clock time although it is not in the triaged table'
                % decision[1])
    if len(seen_table) < 5:
        raise AnalysisBroken('R20c: only %d of the triaged clock-dependent functions were recognised (%s): the flow rule no longer sees them'
                             % (len(seen_table), sorted(seen_table)))
    rep.require_count('R20c', 'clock-reading functions outside the table', n, 8)


def r20d(rep, F):
    rep.rule('R20d', 'no decision depends on the iteration order of a std::unordered_set / unordered_map keyed by a raw pointer with the '
                     'default std::hash (bucket order follows absolute addresses, which ASLR changes): in planner code every range-for / '
                     'begin()-end() traversal of such a container has an order-insensitive body (only delete / free / erase / insert '
                     'into another container / clear).  Expected count of order-sensitive traversals: 0; the set of such containers '
                     'found is reported')
    ptr_unordered = re.compile(r'std::unordered_(set|map)<[^,<>]*\*')
    n = 0
    found_containers = set()
    for fn in F.functions:
        if not fn.body or not any(d in fn.file for d in PLANNER_DIRS + ('/datastructures/',)):
            continue
        for x in fn.walk():
            if x['k'] != 'CXXForRangeStmt':
                continue
            rng = fn.strip(x.get('range')) if x.get('range') else None
            ty = (rng or {}).get('ty') or ''
            ty = ty.replace('const ', '')
            if not ptr_unordered.search(ty) or 'Hash' in ty.split('>')[-2:][0] if False else not ptr_unordered.search(ty):
                continue
            # a user-supplied hash functor is value based (third / fourth template argument present)
            if re.search(r'unordered_(set|map)<.*,\s*\w*Hash\w*', ty):
                continue
            found_containers.add(fn.fp(rng['id']))
            body_calls = [(c.get('callee') or '').split('::')[-1] for c in fn.walk(x['body']) if c.get('callee')]
            sens = [c for c in body_calls if c not in ('freeState', 'freeControl', 'erase', 'insert', 'clear', 'operator delete', 'first', 'second',
                                                       'operator*', 'operator->', 'get', 'freeMotion', 'emplace')]
            deletes = any(y['k'] == 'CXXDeleteExpr' for y in fn.walk(x['body']))
            ok = not sens and (deletes or body_calls)
            n += 1
            rep.add('R20d', fn.name, 'traversal@%d' % fn.line(x), ok, fn.where(x),
                    'order-insensitive body' if ok else 'iterates an address-hashed container (%s) and calls %s: the order differs between processes'
                    % (ty[:60], sorted(set(sens))[:3]))
    rep.note('R20d address-hashed containers traversed: %s' % sorted(found_containers))
    return n


SCAL = re.compile(r'^(const )?(double|float|int|unsigned int|bool|long|unsigned long|std::size_t|size_t|unsigned char|char|short)$')


def r20e(rep, F):
    rep.rule('R20e', 'ordering keys are initialised: for every functor operator()(a, b) -> bool in the library whose two operands have '
                     'the same library class type R (pointer, reference or value), the scalar fields of R it reads -- directly from the '
                     'operands or through one accessor method of R called on them -- are initialised by every constructor of R (member '
                     'initialiser, default member initialiser, or assignment in the constructor / a member function it calls).  Classes '
                     'without a user constructor are listed, not decided')
    n = 0
    done = set()
    for fn in F.functions:
        if not fn.name.endswith('::operator()') or len(fn.params) != 2 or not fn.body:
            continue
        if not fn.file.startswith(facts.REPO + '/src/ompl'):
            continue
        t = [re.sub(r'\bconst\b', '', p['ty']).replace('&', '').replace('*', '').strip() for p in fn.params]
        if t[0] != t[1]:
            continue
        R = t[0]
        while '<' in R:
            R2 = re.sub(r'<[^<>]*>', '', R)
            if R2 == R:
                break
            R = R2
        recs = [nm for nm in F.records if nm == R or nm.endswith('::' + R)]
        if len(recs) != 1:
            continue
        R = recs[0]
        rec = F.record(R)
        if not rec['loc'].startswith(facts.REPO + '/src/ompl'):
            continue
        pd = {p['did'] for p in fn.params}
        keys = set()
        scratch = set()
        for x in fn.walk():
            if x['k'] == 'MemberExpr' and x.get('dk') == 'Field' and (x.get('q') or '').startswith(R + '::'):
                if any(y['k'] == 'DeclRefExpr' and y.get('did') in pd for y in fn.walk(x['id'])):
                    if x.get('mutable'):
                        # a mutable member is per-query scratch (GNAT's distToPivot_), not construction-time state
                        scratch.add(x.get('name'))
                    else:
                        keys.add(x.get('name'))
            if x['k'] == 'CXXMemberCallExpr' and x['ch'] and (x.get('callee') or '').startswith(R + '::'):
                if any(y['k'] == 'DeclRefExpr' and y.get('did') in pd for y in fn.walk(x['ch'][0])):
                    for g in F.by_name.get(x['callee'], []):
                        if g.body:
                            for y in g.walk():
                                if y['k'] == 'MemberExpr' and y.get('dk') == 'Field' and (y.get('q') or '').startswith(R + '::'):
                                    b = g.strip(y['ch'][0]) if y['ch'] else None
                                    if b is None or b['k'] == 'CXXThisExpr':
                                        keys.add(y.get('name'))
        for k in sorted(scratch):
            if (R, k) not in done:
                done.add((R, k))
                rep.undecided('R20e', R, 'key:' + k, 'mutable scratch member written by each query before the element is ordered; not construction-time state')
        fields = {f['name']: f for f in rec['fields']}
        keys = sorted(k for k in keys if k in fields and SCAL.match(fields[k].get('canon') or fields[k].get('ty') or ''))
        if not keys:
            continue
        short = R.split('::')[-1]
        ctors = [c for c in F.by_name.get(R + '::' + short, []) if c.body is not None or c.d.get('inits')]
        ctors = [c for c in ctors if not (len(c.params) == 1 and R.split('::')[-1] in c.params[0]['ty'] and '&' in c.params[0]['ty'])]
        for k in keys:
            if (R, k) in done:
                continue
            done.add((R, k))
            if fields[k].get('hasinit'):
                n += 1
                rep.add('R20e', R, 'key:' + k, True, facts.rel(rec['loc']), 'default member initialiser (ordering key of %s)' % fn.name.split('::operator')[0])
                continue
            if not ctors:
                declared = [m for m in rec.get('methods', []) if m.get('name') == short]
                if declared:
                    # a declared (defaulted) constructor and no initialiser: `new R` leaves the key indeterminate
                    n += 1
                    rep.add('R20e', R, 'key:' + k, False, facts.rel(rec['loc']),
                            '%s, which %s compares, has no initialiser and the class only has a defaulted constructor: the order of the '
                            'elements depends on what the allocator returned' % (k, fn.name.split('::operator')[0]))
                    continue
                rep.undecided('R20e', R, 'key:' + k, 'plain aggregate without a declared constructor: whether every instance is filled before it is '
                              'ordered is not decided')
                continue
            bad = []
            for c in ctors:
                inits = {i.get('field') for i in c.d.get('inits', [])}
                if k in inits or k in assigned_in(F, c, R):
                    continue
                if any(i.get('field') is None and i.get('delegating') for i in c.d.get('inits', [])):
                    continue
                bad.append(c)
            n += 1
            rep.add('R20e', R, 'key:' + k, not bad, bad[0].where(bad[0].nodes[bad[0].body]) if bad and bad[0].body else facts.rel(rec['loc']),
                    'initialised by every constructor (ordering key of %s)' % fn.name.split('::operator')[0] if not bad else
                    '%s, which %s compares, is left uninitialised by constructor %s: the order of the elements depends on what the '
                    'allocator returned' % (k, fn.name.split('::operator')[0], bad[0].sig))
    rep.require_count('R20e', 'ordering keys', n, 4)


def assigned_in(F, fn, rec, depth=0, seen=None):
    seen = seen or set()
    out = set()
    for n in fn.walk():
        if n['k'] == 'BinaryOperator' and n.get('op') == '=':
            t = fn.strip(n['ch'][0])
            if t is not None and t['k'] == 'MemberExpr':
                b = fn.strip(t['ch'][0]) if t['ch'] else None
                if b is None or b['k'] == 'CXXThisExpr':
                    out.add(t.get('name'))
        c = n.get('callee') or ''
        if depth < 2 and c.startswith(rec + '::') and n['k'] == 'CXXMemberCallExpr' and c not in seen and n['ch']:
            recv = fn.strip(n['ch'][0])
            if recv is not None and recv['k'] == 'CXXThisExpr':
                for g in F.by_name.get(c, []):
                    if g.body:
                        out |= assigned_in(F, g, rec, depth + 1, seen | {c})
    return out


def run(rep):
    units = facts.library_units()
    F = facts.load_units(units)
    rep.units.update(units)
    rep.functions.update(f.key for f in F.functions if f.file.endswith('RandomNumbers.cpp') or f.name.endswith('::operator()') or
                         any(d in f.file for d in PLANNER_DIRS))
    r20a(rep, F)
    r20b(rep, F)
    r20f(rep, F)
    r20c(rep, F)
    nd = r20d(rep, F)
    r20e(rep, F)
    rep.undecided('R20x', 'ompl::RNG', 'bit-identical floating point', 'identical streams across compilers / libm versions is assumed by the property and '
                  'not decided')
    rep.undecided('R20x', 'ordered pointer-keyed containers', 'relative-address order', 'std::set / std::map keyed by pointers (LazyPRM vertices, FMT) '
                  'iterate in relative-address order, which is reproducible for a deterministic allocation sequence; a rule on them would '
                  'fire on behaviour-preserving code (design-time replay: 114 identical runs), so they are listed only')
