"""C15 -- informed sampling: structural clauses.

R15a accept-after-check (typestate over the CFG): in every informed sampleUniform routine a result that may be true requires, since
     the last write of the output state, the acceptance test that belongs to the way the state was drawn: a state built from a
     PHS draw (createFullState) must have passed satisfiesBounds; a state drawn from the space bounds must have passed the PHS
     membership test on its freshly extracted informed sub-state or the heuristic cost test against maxCost (no test while the
     cost bound is infinite); a delegated draw must have returned true; the two-bound overloads additionally require
     !isCostBetterThan(sampledCost, minCost) in the library's form; a batch sampler may only queue states whose draw succeeded
R15b keep-probability: keepSample keeps a sample iff there is one PHS or uniform01() <= 1 / numberOfPhsInclusions(sample)
R15c folds over all starts / all hyperspheroids: InformedSampler::heuristicSolnCost uses start i in iteration i of a loop over all
     starts; the PHS folds (heuristic cost = best path length, measure = sum, membership = any, inclusions = count) range over
     the whole list and use the loop element
R15d measures in normal form: unitNBallMeasure(N) == nBallMeasure(N, 1); prolateHyperspheroidMeasure(N, dF, dT) ==
     (dT/2) * (sqrt(dT^2 - dF^2)/2)^(N-1) * unitNBallMeasure(N); the PHS transformation uses the same conjugate diameter and
     the radii (dT/2, conj/2, ...); getPhsMeasure passes (dim_, minTransverseDiameter_, diameter)
R15e membership is strict: isInPhs == getPathLength(x) < transverseDiameter_, isOnPhs == equality, getPathLength is the sum of the
     two focal distances
R15f PHS typestate: isTransformUpToDate_ becomes true only after transformation and measure were assigned; changing the diameter or the
     rotation clears it first; transform / isInPhs / isOnPhs reach their computation only when it is true
R15g unit-ball draws: uniformInBall scales a unit-sphere direction by r * uniformReal(0,1)^(1/n); uniformProlateHyperspheroid feeds
     uniformInBall(1, .) and the surface variant uniformNormalVector(.) through ProlateHyperspheroid::transform
"""
import re
from engine import facts, sym, paths, lin
from engine.facts import AnalysisBroken, src
from engine.shape import key, args
from engine.sym import Poly, Unsupported

B = 'ompl::base::'
PLD = B + 'PathLengthDirectInfSampler'
REJ = B + 'RejectionInfSampler'
ORD = B + 'OrderedInfSampler'
INF = B + 'InformedSampler'
PHS = 'ompl::ProlateHyperspheroid'
UNITS = [src('base', 'samplers', 'informed', 'src', 'PathLengthDirectInfSampler.cpp'),
         src('base', 'samplers', 'informed', 'src', 'RejectionInfSampler.cpp'),
         src('base', 'samplers', 'informed', 'src', 'OrderedInfSampler.cpp'),
         src('base', 'samplers', 'src', 'InformedStateSampler.cpp'),
         src('util', 'src', 'ProlateHyperspheroid.cpp'), src('util', 'src', 'RandomNumbers.cpp'),
         src('util', 'src', 'GeometricEquations.cpp')]
DELEG = ('::sampleUniform', '::samplePhsRejectBounds', '::sampleBoundsRejectPhs')


class InformedClient(paths.Client):
    """auto = (kind, passed, pending, fresh, infinite, kept)   kept: the 1/K thinning (keepSample) came out true since the last PHS draw
    kind: None | 'base' | 'phs' | 'deleg' | 'copy' | 'other';  passed: frozenset of (test, state key);
    pending: frozenset of (test, state key, node id)"""
    fork_bools = True
    track = 'vars'

    def __init__(self, fn):
        sp = [p for p in fn.params if p['ty'].replace('ompl::base::', '') == 'State *']
        self.out = '%s#%d' % (sp[0]['name'], sp[0]['did']) if sp else None
        self.maxp = [p['name'] for p in fn.params if p['name'].startswith('maxCost')]
        self.minp = [p['name'] for p in fn.params if p['name'].startswith('minCost')]
        self.exits = []
        self.cost_locals = {}
        for ds in [n for n in fn.walk() if n['k'] == 'DeclStmt']:
            for d in ds.get('decls', []):
                if d.get('init') and 'Cost' in (d.get('ty') or ''):
                    for c in fn.walk(d['init']):
                        if (c.get('callee') or '').endswith('::heuristicSolnCost'):
                            a = args(fn, c)
                            if a:
                                self.cost_locals['%s#%d' % (d['name'], d['did'])] = self.skey(fn, a[0])

    def skey(self, fn, nid):
        n = fn.strip(nid)
        if n is None:
            return None
        if n['k'] == 'DeclRefExpr':
            return '%s#%d' % (n.get('name'), n.get('did'))
        return key(fn, nid) or fn.fp(n['id'])

    def init(self, fn):
        return (None, frozenset(), frozenset(), False, False, False)

    def costed_state(self, fn, nid):
        """the state whose heuristic cost an expression denotes"""
        n = fn.strip(nid)
        if n is None:
            return None
        if (n.get('callee') or '').endswith('::heuristicSolnCost'):
            a = args(fn, n)
            return self.skey(fn, a[0]) if a else None
        if n['k'] == 'DeclRefExpr':
            return self.cost_locals.get('%s#%d' % (n.get('name'), n.get('did')))
        return None

    def on_node(self, fn, node, auto, ctx):
        kind, passed, pending, fresh, inf, kept = auto
        c = node.get('callee')
        if c is not None and self.minp and c.split('::')[-1] in ('isCostBetterThan', 'isCostEquivalentTo'):
            # minCost test:  isCostEquivalentTo(minCost, c) || isCostBetterThan(minCost, c)  -- registered at its first operand,
            # because the operands are evaluated (and branched on) before the disjunction node itself
            par = fn.nodes.get(fn.parent.get(node['id']))
            while par is not None and par['k'] in ('ParenExpr', 'ImplicitCastExpr', 'ExprWithCleanups'):
                par = fn.nodes.get(fn.parent.get(par['id']))
            if par is not None and par['k'] == 'BinaryOperator' and par.get('op') == '||':
                l, r = fn.strip(par['ch'][0]), fn.strip(par['ch'][1])
                cal = sorted(((x or {}).get('callee') or '').split('::')[-1] for x in (l, r))
                if cal == ['isCostBetterThan', 'isCostEquivalentTo']:
                    ok = True
                    st = None
                    for x in (l, r):
                        a = args(fn, x)
                        if len(a) != 2 or (fn.strip(a[0]) or {}).get('name') not in self.minp:
                            ok = False
                        else:
                            st = self.costed_state(fn, a[1])
                    if ok and st:
                        pending = pending | {('min', st, (par['id'], l['id'], r['id']))}
                        return (kind, passed, pending, fresh, inf, kept)
        if c is None:
            return auto
        a = args(fn, node)
        short = c.split('::')[-1]
        if short == 'getInformedSubstate' and a and self.skey(fn, a[0]) == self.out:
            return (kind, passed, pending, True, inf, kept)
        if short == 'uniformProlateHyperspheroid':
            return (kind, passed, pending, fresh, inf, False)            # a new PHS draw: not thinned yet
        if short == 'keepSample':
            return (kind, passed, pending | {('keep', '#', (node['id'],))}, fresh, inf, kept)
        if short == 'satisfiesBounds' and a:
            return (kind, passed, pending | {('bounds', self.skey(fn, a[0]), (node['id'],))}, fresh, inf, kept)
        if short == 'isInAnyPhs':
            if fresh:
                pending = pending | {('phs', self.out, (node['id'],))}
            return (kind, passed, pending, fresh, inf, kept)
        if short == 'isCostBetterThan' and len(a) == 2 and (fn.strip(a[1]) or {}).get('name') in self.maxp:
            st = self.costed_state(fn, a[0])
            if st:
                pending = pending | {('cost<', st, (node['id'],))}
            return (kind, passed, pending, fresh, inf, kept)
        # writes of the output state
        writes_out = False
        for i in node.get('wargs') or []:
            if i < len(a) and self.skey(fn, a[i]) == self.out:
                writes_out = True
        if writes_out:
            if c.endswith('StateSampler::sampleUniform') and 'Informed' not in c and 'InfSampler' not in c:
                return ('base', frozenset(), frozenset(), False, inf, False)
            if short == 'createFullState':
                return ('phs', frozenset(), frozenset(), False, inf, kept)
            if short == 'copyState' and len(a) == 2:
                s = self.skey(fn, a[1])
                return ('copy', frozenset((t, self.out) for (t, k) in passed if k == s), frozenset(), False, inf, kept)
            if any(c.endswith(d) for d in DELEG) and ('InfSampler' in c or 'InformedSampler' in c):
                return ('deleg', frozenset(), frozenset({('deleg', self.out, (node['id'],))}), False, inf, kept)
            return ('other:' + short, frozenset(), frozenset(), False, inf, kept)
        return auto

    def learn(self, fn, node, value, auto, ctx):
        kind, passed, pending, fresh, inf, kept = auto
        if node.get('id') is None:
            return auto
        if (node.get('callee') or '').endswith('::isFinite') and value is False:
            inf = True
        hit = [p for p in pending if node['id'] in p[2]]
        if hit:
            if value:
                # any operand of a disjunction (or the test itself) being true establishes it
                pending = pending - set(hit)
                passed = passed | {(t, k) for (t, k, _) in hit if t != 'keep'}
                if any(t == 'keep' for (t, k, _) in hit):
                    kept = True
            else:
                single = [p for p in hit if len(p[2]) == 1 or node['id'] == p[2][0]]
                pending = pending - set(single)
        return (kind, passed, pending, fresh, inf, kept)

    def at_exit(self, fn, ret, auto, ctx):
        rv = ctx.eval(ret['ch'][0]) if ret is not None and ret['ch'] else None
        if ret is not None and ret['ch']:
            rn = fn.strip(ret['ch'][0])
            kind, passed, pending, fresh, inf, kept = auto
            hit = [p for p in pending if rn is not None and rn['id'] in p[2]]
            if hit:
                # the test itself is returned: a true result is its verdict
                auto = (kind, passed | {(t, k) for (t, k, _) in hit}, pending - set(hit), fresh, inf, kept)
        self.exits.append((auto, rv, ctx.path()))


def verdict(cl, auto):
    """None when the exit state justifies a true result, else the reason"""
    kind, passed, pending, fresh, inf, kept = auto
    tests = {t for (t, k) in passed if k == cl.out}
    if kind is None:
        return 'no write of the output state'
    if kind == 'base':
        if not (inf or 'phs' in tests or 'cost<' in tests):
            return 'a state drawn from the space bounds is accepted without a PHS-membership or heuristic-cost test since its last write'
        if kept:
            return 'a state drawn uniformly from the space bounds is additionally thinned by keepSample (1/K): regions covered by ' \
                   'several hyperspheroids get 1/K of the uniform density'
    elif kind == 'phs':
        if 'bounds' not in tests:
            return 'a state built from a PHS draw is accepted without satisfiesBounds since its last write'
        if not kept:
            return 'a state drawn from one of several overlapping hyperspheroids is accepted without the 1/K thinning (keepSample) ' \
                   'since that draw: overlaps are over-sampled'
    elif kind == 'deleg':
        if 'deleg' not in tests:
            return 'the verdict of the delegated draw is not what is returned'
    elif kind == 'copy':
        if 'cost<' not in tests:
            return 'a queued state is returned without the heuristic-cost test against maxCost'
    else:
        return 'the output state was last written by %s, after which no acceptance test ran' % kind.split(':')[-1]
    if cl.minp and 'min' not in tests:
        return 'the lower cost bound is not tested on the returned state'
    return None


TYPESTATE_FUNCS = [
    (PLD + '::sampleUniform', 'const ompl::base::Cost &)'), (PLD + '::sampleUniform', 'const ompl::base::Cost &, const ompl::base::Cost &)'),
    (PLD + '::sampleUniform', 'unsigned int *)'), (PLD + '::sampleBoundsRejectPhs', None), (PLD + '::samplePhsRejectBounds', None),
    (REJ + '::sampleUniform', 'const ompl::base::Cost &)'), (REJ + '::sampleUniform', 'const ompl::base::Cost &, const ompl::base::Cost &)'),
    (REJ + '::sampleUniform', 'unsigned int *)'), (ORD + '::sampleUniform', '(ompl::base::State *, const ompl::base::Cost &)'),
]


def r15a(rep, F):
    rep.rule('R15a', 'typestate over the CFG of the informed sampleUniform routines (PathLengthDirect x5, Rejection x3, Ordered x1): the '
                     'output state is `base` after baseSampler_->sampleUniform, `phs` after createFullState, `deleg` after another '
                     'informed draw, `copy` after copyState; acceptance tests are learned from branch outcomes and from the value of '
                     'the returned flag; every exit whose result may be true must carry the test that belongs to the last writer '
                     '(phs: satisfiesBounds and keepSample true since the PHS draw; base: isInAnyPhs on a fresh sub-state and no keepSample '
                     'thinning, or isCostBetterThan(heuristicSolnCost(state), '
                     'maxCost), or an infinite bound; deleg: its verdict; two bounds: the minCost disjunction).  '
                     'OrderedInfSampler::createBatch may queue a state only when the draw that filled it returned true')
    n = 0
    for name, sig in TYPESTATE_FUNCS:
        fs = [f for f in F.by_name.get(name, []) if f.body and (sig is None or f.sig.replace(' const', '').rstrip().endswith(sig) or sig in f.sig)]
        if sig and sig.startswith('const ompl::base::Cost &)'):
            fs = [f for f in fs if len(f.params) == 2]
        if not fs:
            raise AnalysisBroken('R15a: anchor vanished: %s %s' % (name, sig or ''))
        fn = fs[0]
        cl = InformedClient(fn)
        if cl.out is None:
            raise AnalysisBroken('R15a: %s has no output state parameter' % fn.name)
        paths.run_function(fn, cl, F)
        bad = []
        for auto, rv, p in cl.exits:
            if rv is False:
                continue
            why = verdict(cl, auto)
            if why:
                bad.append((why, p))
        n += 1
        rep.add('R15a', fn.name, 'true-implies-accepted/%d' % len(fn.params), not bad and bool(cl.exits), fn.where(fn.nodes[fn.body]),
                'every exit that may return true carries the acceptance test of its last writer (%d exit states)' % len(cl.exits)
                if not bad else bad[0][0], bad[0][1] if bad else None)
    # batch: queue only accepted draws
    fs = [f for f in F.by_name.get(ORD + '::createBatch', []) if f.body and len(f.params) == 1]
    if not fs:
        raise AnalysisBroken('R15a: anchor vanished: OrderedInfSampler::createBatch')
    fn = fs[0]
    draws = [c for c in fn.walk() if (c.get('callee') or '').endswith('::sampleUniform')]
    pushes = [c for c in fn.walk() if (c.get('callee') or '').endswith('::push')]
    ok = bool(draws) and bool(pushes)
    why = ''
    for pu in pushes:
        guarded = False
        for anc in fn.ancestors(pu['id']):
            if anc['k'] == 'IfStmt' and anc.get('cond'):
                in_then = any(x['id'] == pu['id'] for x in fn.walk(anc['then']))
                cond_calls = [x for x in fn.walk(anc['cond']) if (x.get('callee') or '').endswith('::sampleUniform')]
                neg = any(x['k'] == 'UnaryOperator' and x.get('op') == '!' for x in fn.walk(anc['cond']))
                cond_vars = [x.get('did') for x in fn.walk(anc['cond']) if x['k'] == 'DeclRefExpr']
                flag_from_draw = False
                for ds in [x for x in fn.walk() if x['k'] == 'DeclStmt']:
                    for d in ds.get('decls', []):
                        if d['did'] in cond_vars and d.get('init') and any((y.get('callee') or '').endswith('::sampleUniform') for y in fn.walk(d['init'])):
                            flag_from_draw = True
                if (cond_calls or flag_from_draw) and in_then != neg:
                    guarded = True
        if not guarded:
            ok = False
            why = 'the state is queued whether or not infSampler_->sampleUniform succeeded: a failed draw leaves a state that passed ' \
                  'no bounds test, and sampleUniform later returns it after the cost test alone'
    n += 1
    rep.add('R15a', fn.name, 'queue-only-accepted', ok, fn.where(pushes[0]) if pushes else fn.where(fn.nodes[fn.body]),
            'push is guarded by the verdict of the draw' if ok else why)
    rep.require_count('R15a', 'informed draw routines', n, 10)


def nf(F, name, args_, deny=(), this=('T',), sig=None, nparams=None):
    fs = [x for x in F.by_name.get(name, []) if x.body and (sig is None or sig in x.sig) and (nparams is None or len(x.params) == nparams)]
    if not fs:
        raise AnalysisBroken('anchor function vanished: %s' % name)
    f = fs[0]
    m = sym.Machine(F, sym.Ctx(inline=sym.resolver(F, deny=deny)))
    st = {'env': {}, 'heap': [], 'alias': {}, 'this': this, 'facts': []}
    for p, v in zip(f.params, args_):
        st['env'][p['did']] = v
    try:
        r = m.block(f, [f.body], st)
    except Unsupported as e:
        raise AnalysisBroken('%s outside the normalisable fragment: %s' % (name, e))
    return f, (None if r is sym.FALL else r), st, m


def r15b(rep, F):
    rep.rule('R15b', 'PathLengthDirectInfSampler::keepSample in normal form: listPhsPtrs_.size() > 1 ? (uniform01() <= 1 / '
                     'numberOfPhsInclusions(informedVector)) : true')
    V = ('S', 'vec')
    f, r, st, m = nf(F, PLD + '::keepSample', (V,), deny=('numberOfPhsInclusions', 'uniform01', 'size'))
    # expected
    sz = [c.get('callee') for c in [x for x in F.by_name.get(PLD + '::keepSample', []) if x.body][0].walk() if (c.get('callee') or '').endswith('::size')]
    size = Poly.atom(('call', sz[0] if sz else 'std::list::size', ('F', ('T',), 'listPhsPtrs_')))
    numin = Poly.atom(('call', PLD + '::numberOfPhsInclusions', ('T',), V))
    rnd = Poly.atom(('call', 'ompl::RNG::uniform01', ('F', ('T',), 'rng_')))
    want = sym.ite(sym.cmp0('lt0', Poly.const(1) - size, None), sym.cmp0('le0', rnd - sym.inv(numin), None), True)
    ok = r == want
    rep.add('R15b', f.name, 'keep-with-probability-1/K', ok, f.where(f.nodes[f.body]),
            'keep iff one PHS or uniform01() <= 1/K' if ok else 'keepSample is %s' % (sym.show(r) if r is not None else None))


def range_for_over(fn, member):
    """CXXForRangeStmt nodes whose range is exactly this->member; returns [(loop node, loop var did)]"""
    out = []
    for n in fn.walk():
        if n['k'] == 'CXXForRangeStmt':
            rng = fn.strip(n.get('range')) if n.get('range') else None
            if rng is not None and rng['k'] == 'MemberExpr' and rng.get('name') == member:
                var = n.get('var')
                vd = None
                if var:
                    vn = fn.nodes.get(var)
                    if vn and vn.get('decls'):
                        vd = vn['decls'][0]['did']
                out.append((n, vd))
    return out


def r15c(rep, F):
    rep.rule('R15c', 'folds range over everything: InformedSampler::heuristicSolnCost loops i over [0, getStartStateCount()) and passes '
                     'getStartState(i) to motionCostHeuristic; PathLengthDirect heuristicSolnCost / getInformedMeasure / '
                     'numberOfPhsInclusions are range-for loops over the whole listPhsPtrs_ whose body calls the PHS method on the '
                     'loop element and folds with betterCost / + / ++; isInAnyPhs visits every element until the first hit')
    n = 0
    fs = [f for f in F.by_name.get(INF + '::heuristicSolnCost', []) if f.body]
    if not fs:
        raise AnalysisBroken('anchor vanished: InformedSampler::heuristicSolnCost')
    fn = fs[0]
    loops = [x for x in fn.walk() if x['k'] == 'ForStmt']
    ok = False
    detail = 'no loop over the start states'
    for lp in loops:
        from engine.shape import for_loop
        li, start, cond, stride = for_loop(fn, lp)
        if li is None:
            continue
        full = lin.canon(start) == lin.canon({1: 0}) and cond and cond[0] == 'le0' and \
            any('getStartStateCount' in str(k) for k, v in cond[1])
        if not full and lin.canon(start) == lin.canon({1: 1}) and cond and cond[0] == 'le0' and any('getStartStateCount' in str(k) for k, v in cond[1]):
            # accepted variant: start 0 seeds the accumulator before the loop (motionCostHeuristic(getStartState(0), ...)) and the loop runs from 1
            pre = [c for c in fn.walk() if (c.get('callee') or '').endswith('::motionCostHeuristic') and fn.line(c) < fn.line(lp) and
                   any((g.get('callee') or '').endswith('::getStartState') and lin.lin(fn, args(fn, g)[0]) == {1: 0} for g in fn.walk(args(fn, c)[0]))]
            full = bool(pre)
        gets = [c for c in fn.walk(lp['body']) if (c.get('callee') or '').endswith('::getStartState')]
        uses = [c for c in gets if lin.lin(fn, args(fn, c)[0]) == {li: 1}]
        inmch = [c for c in fn.walk(lp['body']) if (c.get('callee') or '').endswith('::motionCostHeuristic')]
        ok = full and bool(gets) and len(uses) == len(gets) and bool(inmch) and \
            all(any(x['id'] == g['id'] for x in fn.walk(args(fn, inmch[0])[0])) for g in gets[:1])
        detail = 'start i in iteration i, all starts' if ok else \
            ('the loop does not cover [0, getStartStateCount())' if not full else
             'motionCostHeuristic is evaluated from getStartState(%s), not from start i of iteration i' %
             ', '.join(lin.show(lin.lin(fn, args(fn, c)[0])) for c in gets if c not in uses))
    n += 1
    rep.add('R15c', fn.name, 'all-starts', ok, fn.where(fn.nodes[fn.body]), detail)
    for meth, call, fold in (('heuristicSolnCost', 'getPathLength', 'betterCost'), ('getInformedMeasure', 'getPhsMeasure', '+'),
                             ('numberOfPhsInclusions', 'isInPhs', '++')):
        fs = [f for f in F.by_name.get(PLD + '::' + meth, []) if f.body and (meth != 'getInformedMeasure' or len(f.params) == 1)]
        if not fs:
            raise AnalysisBroken('anchor vanished: %s::%s' % (PLD, meth))
        fn = fs[0]
        loops = range_for_over(fn, 'listPhsPtrs_')
        ok = len(loops) == 1
        detail = 'no range-for over listPhsPtrs_'
        if ok:
            lp, vd = loops[0]
            calls = [c for c in fn.walk(lp['body']) if (c.get('callee') or '').endswith('::' + call)]
            on_elem = [c for c in calls if any(x['k'] == 'DeclRefExpr' and x.get('did') == vd for x in fn.walk(c['ch'][0]))]
            folded = any((x.get('callee') or '').endswith('::betterCost') for x in fn.walk(lp['body'])) if fold == 'betterCost' else \
                any(x['k'] == 'BinaryOperator' and x.get('op') == '+' for x in fn.walk(lp['body'])) if fold == '+' else \
                any(x['k'] == 'UnaryOperator' and x.get('op') == '++' for x in fn.walk(lp['body']))
            brk = any(x['k'] in ('BreakStmt', 'ReturnStmt') for x in fn.walk(lp['body']))
            ok = bool(calls) and len(on_elem) == len(calls) and folded and not brk
            detail = 'every PHS contributes %s via %s' % (call, fold) if ok else 'the fold over listPhsPtrs_ is not %s(%s(element))' % (fold, call)
        n += 1
        rep.add('R15c', fn.name, 'all-hyperspheroids', ok, fn.where(fn.nodes[fn.body]), detail)
    fs = [f for f in F.by_name.get(PLD + '::isInAnyPhs', []) if f.body]
    if not fs:
        raise AnalysisBroken('anchor vanished: isInAnyPhs')
    fn = fs[0]
    loops = [x for x in fn.walk() if x['k'] == 'ForStmt']
    ok = False
    if len(loops) == 1:
        lp = loops[0]
        init_begin = any((x.get('callee') or '').endswith('::begin') for x in fn.walk(lp['init'])) if lp.get('init') else False
        cond_end = any((x.get('callee') or '').endswith('::end') for x in fn.walk(lp['cond'])) if lp.get('cond') else False
        calls = [c for c in fn.walk(lp['body']) if (c.get('callee') or '').endswith('::isInPhs')]
        ok = init_begin and cond_end and len(calls) == 1
    n += 1
    rep.add('R15c', fn.name, 'any-hyperspheroid', ok, fn.where(fn.nodes[fn.body]),
            'begin() .. end() until the first hit' if ok else 'isInAnyPhs does not visit listPhsPtrs_ from begin() to end()')
    rep.require_count('R15c', 'folds', n, 5)


def r15d(rep, F):
    rep.rule('R15d', 'measures in normal form: NF(unitNBallMeasure(N)) == NF(nBallMeasure(N, 1)) (integer division is not real division); '
                     'NF(prolateHyperspheroidMeasure(N, dF, dT)) == (dT/2) * pow(sqrt(dT^2 - dF^2)/2, N-1) * unitNBallMeasure(N); '
                     'ProlateHyperspheroid::updateTransformation computes the same conjugate diameter from (transverseDiameter_, '
                     'minTransverseDiameter_), fills the radii with conj/2 and sets radius 0 to transverseDiameter_/2, and stores '
                     'prolateHyperspheroidMeasure(dim_, minTransverseDiameter_, transverseDiameter_); getPhsMeasure(d) passes '
                     '(dim_, minTransverseDiameter_, d)')
    N, dF, dT = Poly.atom(('S', 'N')), Poly.atom(('S', 'dF')), Poly.atom(('S', 'dT'))
    f1, u, _, _ = nf(F, 'ompl::unitNBallMeasure', (N,))
    f2, b, _, _ = nf(F, 'ompl::nBallMeasure', (N, Poly.const(1)))
    ok = isinstance(u, Poly) and u == b
    rep.add('R15d', f1.name, 'equals-nBallMeasure(N,1)', ok, f1.where(f1.nodes[f1.body]),
            'pi^(N/2) / Gamma(N/2 + 1) in both' if ok else 'unitNBallMeasure(N) = %s but nBallMeasure(N, 1) = %s' % (sym.show(u), sym.show(b)))
    f3, p, _, _ = nf(F, 'ompl::prolateHyperspheroidMeasure', (N, dF, dT), deny=('unitNBallMeasure',))
    mm = sym.Machine(None, sym.Ctx())
    conj = mm.app('sqrt', [dT * dT - dF * dF])
    want = dT.scale(sym.Fraction(1, 2)) * Poly.atom(('app', 'pow', conj.scale(sym.Fraction(1, 2)).key(), (N - Poly.const(1)).key())) * \
        Poly.atom(('call', 'ompl::unitNBallMeasure', None, N.key()))
    ok = isinstance(p, Poly) and p == want
    rep.add('R15d', f3.name, 'analytic-volume', ok, f3.where(f3.nodes[f3.body]),
            '(dT/2) * (conj/2)^(N-1) * unit ball' if ok else 'measure is %s' % sym.show(p))
    # PHS::updateTransformation
    fs = [f for f in F.by_name.get(PHS + '::updateTransformation', []) if f.body]
    if not fs:
        raise AnalysisBroken('anchor vanished: updateTransformation')
    fn = fs[0]
    D = ('call', 'std::__shared_ptr_access::operator->', None)     # dataPtr_-> is transparent in the engine
    tD = Poly.atom(('rd', ('F', ('F', ('T',), 'dataPtr_'), 'transverseDiameter_')))
    mD = Poly.atom(('rd', ('F', ('F', ('T',), 'dataPtr_'), 'minTransverseDiameter_')))
    conj2 = mm.app('sqrt', [tD * tD - mD * mD])
    m = sym.Machine(F, sym.Ctx(inline=None))
    st = {'env': {}, 'heap': [], 'alias': {}, 'this': ('T',), 'facts': []}
    probs = []
    # scalar pieces, statement by statement (the Eigen statements are outside the fragment and are matched by shape)
    seen = {'conj': False, 'fill': False, 'first': False, 'measure': False}
    for sid in fn.nodes[fn.body]['ch']:
        sn = fn.nodes[sid]
        x = fn.strip(sid)
        try:
            if sn['k'] == 'DeclStmt':
                m.stmt(fn, sid, st, [])
                continue
            if x is not None and x['k'] == 'BinaryOperator' and x.get('op') == '=':
                l = fn.strip(x['ch'][0])
                if l is not None and l['k'] == 'DeclRefExpr':
                    m.stmt(fn, sid, st, [])
                    v = st['env'].get(l['did'])
                    if isinstance(v, Poly) and 'onjugate' in l['name']:
                        seen['conj'] = True
                        if v != conj2:
                            probs.append('conjugate diameter is %s' % sym.show(v))
                    continue
                if l is not None and l['k'] == 'MemberExpr' and l.get('name') == 'phsMeasure_':
                    c = fn.strip(x['ch'][1])
                    a = [fn.fp(y) for y in args(fn, c)] if c is not None and c.get('callee') == 'ompl::prolateHyperspheroidMeasure' else []
                    seen['measure'] = True
                    if [s.split('.')[-1] for s in a] != ['dim_', 'minTransverseDiameter_', 'transverseDiameter_']:
                        probs.append('phsMeasure_ = prolateHyperspheroidMeasure(%s)' % ', '.join(a))
                    continue
            if x is not None and (x.get('callee') or '').endswith('::fill'):
                v = m.num(m.load(m.loadv(m.ev(fn, args(fn, x)[0], st), st), st))
                seen['fill'] = True
                if v != conj2.scale(sym.Fraction(1, 2)):
                    probs.append('radii filled with %s' % sym.show(v))
                continue
            if x is not None and x['k'] == 'BinaryOperator' and x.get('op') == '=':
                l = fn.strip(x['ch'][0])
                if l is not None and l.get('oop') == '()' and len(l['ch']) == 2:
                    idx = lin.lin(fn, l['ch'][1])
                    v = m.num(m.load(m.loadv(m.ev(fn, x['ch'][1], st), st), st))
                    if idx == {1: 0}:
                        seen['first'] = True
                        if v != tD.scale(sym.Fraction(1, 2)):
                            probs.append('radius 0 is %s' % sym.show(v))
                    continue
        except Unsupported:
            continue
    missing = [k for k, v in seen.items() if not v]
    if missing:
        raise AnalysisBroken('R15d: updateTransformation: pieces not found: %s' % missing)
    rep.add('R15d', fn.name, 'radii-and-measure', not probs, fn.where(fn.nodes[fn.body]),
            'radii (dT/2, conj/2, ...), measure from (dim_, dMin, dT)' if not probs else '; '.join(probs))
    fs = [f for f in F.by_name.get(PHS + '::getPhsMeasure', []) if f.body and len(f.params) == 1]
    if not fs:
        raise AnalysisBroken('anchor vanished: getPhsMeasure(double)')
    fn = fs[0]
    c = [x for x in fn.walk() if x.get('callee') == 'ompl::prolateHyperspheroidMeasure']
    a = [fn.fp(y) for y in args(fn, c[0])] if c else []
    ok = len(a) == 3 and a[0].endswith('dim_') and a[1].endswith('minTransverseDiameter_') and a[2].split('#')[0] == fn.params[0]['name']
    rep.add('R15d', fn.name, 'argument-order', ok, fn.where(fn.nodes[fn.body]),
            '(dim_, minTransverseDiameter_, diameter)' if ok else 'prolateHyperspheroidMeasure(%s)' % ', '.join(a))


def r15e(rep, F):
    rep.rule('R15e', 'ProlateHyperspheroid membership: isInPhs returns getPathLength(point) < transverseDiameter_ (strict, as the statement '
                     'requires a cost strictly below the bound), isOnPhs returns equality; getPathLength is the sum of two norm() calls, '
                     'one on a difference with xFocus1_ and one with xFocus2_, both with the query point')
    P = ('S', 'point')
    tD = Poly.atom(('rd', ('F', ('F', ('T',), 'dataPtr_'), 'transverseDiameter_')))
    pl = Poly.atom(('call', PHS + '::getPathLength', ('T',), P))
    for meth, want, text in (('isInPhs', sym.cmp0('lt0', pl - tD, None), 'getPathLength(point) < transverseDiameter_'),
                             ('isOnPhs', sym.cmp0('eq0', pl - tD, None), 'getPathLength(point) == transverseDiameter_')):
        f, r, st, m = nf(F, PHS + '::' + meth, (P,), deny=('getPathLength',))
        up = sym.cmp0('ne0', Poly.atom(('rd', ('F', ('F', ('T',), 'dataPtr_'), 'isTransformUpToDate_'))), None)
        ok = r == want and m.preconds == [up]
        rep.add('R15e', f.name, 'comparison', ok, f.where(f.nodes[f.body]),
                text + ', throws unless the transform is up to date' if ok else '%s is %s under %s' % (meth, sym.show(r), [sym.show(x) for x in m.preconds]))
    fs = [f for f in F.by_name.get(PHS + '::getPathLength', []) if f.body]
    if not fs:
        raise AnalysisBroken('anchor vanished: getPathLength')
    fn = fs[0]
    rets = [r for r in fn.walk() if r['k'] == 'ReturnStmt' and r['ch']]
    top = fn.strip(rets[0]['ch'][0]) if len(rets) == 1 else None
    ok = False
    detail = 'getPathLength is not a sum of two norms'
    if top is not None and top['k'] == 'BinaryOperator' and top.get('op') == '+':
        norms = [fn.strip(c) for c in top['ch']]
        if all(x is not None and (x.get('callee') or '').endswith('::norm') for x in norms):
            foci = []
            pts = 0
            good = True
            for x in norms:
                d = fn.strip(x['ch'][0])
                if d is None or d.get('oop') != '-':
                    good = False
                    continue
                names = [y.get('name') for y in fn.walk(d['id']) if y['k'] in ('MemberExpr', 'DeclRefExpr')]
                foci += [nm for nm in names if nm in ('xFocus1_', 'xFocus2_')]
                pts += names.count(fn.params[0]['name'])
            ok = good and sorted(foci) == ['xFocus1_', 'xFocus2_'] and pts == 2
            detail = '|f1 - x| + |x - f2|' if ok else 'the two norms use foci %s and the point %d time(s)' % (foci, pts)
    rep.add('R15e', fn.name, 'sum-of-focal-distances', ok, fn.where(fn.nodes[fn.body]), detail)


class FlagClient(paths.Client):
    """PHS up-to-date flag: auto = frozenset of members assigned since the flag was last cleared, plus ('flag', value)"""
    track = 'none'

    def __init__(self, fn):
        self.bad = []

    def init(self, fn):
        return frozenset()

    def on_node(self, fn, node, auto, ctx):
        if node['k'] in ('BinaryOperator', 'CXXOperatorCallExpr') and (node.get('op') == '=' or node.get('oop') == '='):
            l = fn.strip(node['ch'][0])
            if l is not None and l['k'] == 'MemberExpr':
                nm = l.get('name')
                if nm == 'isTransformUpToDate_':
                    v = fn.strip(node['ch'][1])
                    val = bool(v['v']) if v is not None and v['k'] == 'CXXBoolLiteralExpr' else None
                    if val is True:
                        need = {'transformationWorldFromEllipse_', 'phsMeasure_'}
                        if not need <= set(auto):
                            self.bad.append(('flag set while %s not yet assigned' % sorted(need - set(auto)), ctx.path()))
                        return auto
                    return frozenset(set(auto) | {'#cleared'})
                if nm in ('transverseDiameter_', 'rotationWorldFromEllipse_'):
                    if '#cleared' not in auto:
                        self.bad.append(('%s changed before isTransformUpToDate_ was cleared' % nm, ctx.path()))
                return frozenset(set(auto) | {nm})
        return auto


def r15f(rep, F):
    rep.rule('R15f', 'ProlateHyperspheroid typestate: in updateTransformation isTransformUpToDate_ = true is reached only after '
                     'transformationWorldFromEllipse_ and phsMeasure_ were assigned; setTransverseDiameter and updateRotation clear the '
                     'flag before they change transverseDiameter_ / rotationWorldFromEllipse_, and setTransverseDiameter calls '
                     'updateTransformation after storing a new diameter; transform / isInPhs / isOnPhs throw unless the flag is set')
    n = 0
    for meth in ('updateTransformation', 'setTransverseDiameter', 'updateRotation'):
        fs = [f for f in F.by_name.get(PHS + '::' + meth, []) if f.body]
        if not fs:
            raise AnalysisBroken('anchor vanished: ' + meth)
        fn = fs[0]
        cl = FlagClient(fn)
        paths.run_function(fn, cl, F)
        extra = ''
        ok = not cl.bad
        if meth == 'updateTransformation':
            sets = [x for x in fn.walk() if x['k'] == 'BinaryOperator' and x.get('op') == '=' and
                    (fn.strip(x['ch'][0]) or {}).get('name') == 'isTransformUpToDate_']
            if not sets:
                ok = False
                extra = 'the flag is never set'
        if meth == 'setTransverseDiameter':
            store = [x for x in fn.walk() if x['k'] == 'BinaryOperator' and x.get('op') == '=' and
                     (fn.strip(x['ch'][0]) or {}).get('name') == 'transverseDiameter_']
            upd = [x for x in fn.walk() if (x.get('callee') or '').endswith('::updateTransformation')]
            if not store or not upd or not all(any(a['id'] in [y['id'] for y in fn.ancestors(u['id'])] for a in fn.ancestors(s['id']) if a['k'] == 'CompoundStmt')
                                               for s in store for u in upd[:1]):
                ok = False
                extra = 'a new diameter is stored without updateTransformation() in the same block'
        n += 1
        rep.add('R15f', fn.name, 'flag-discipline', ok, fn.where(fn.nodes[fn.body]),
                'flag cleared before / set after the data it guards' if ok else (cl.bad[0][0] if cl.bad else extra),
                cl.bad[0][1] if cl.bad else None)
    # postcondition of setTransverseDiameter(d): on every non-throwing path the stored diameter equals d -- it is assigned d, or
    # the path condition is stored == d
    fn = [f for f in F.by_name.get(PHS + '::setTransverseDiameter', []) if f.body][0]
    dpar = Poly.atom(('S', 'd'))
    m = sym.Machine(F, sym.Ctx(inline=sym.resolver(F, deny=('updateTransformation', 'log'))))
    m.split = 'all'
    st = {'env': {fn.params[0]['did']: dpar}, 'heap': [], 'alias': {}, 'this': ('T',), 'facts': []}
    try:
        r = m.block(fn, [fn.body], st)
        leaves = sym.leaves(r, st)
    except Unsupported as e:
        raise AnalysisBroken('R15f: setTransverseDiameter outside the fragment: %s' % e)
    tref = ('F', ('F', ('T',), 'dataPtr_'), 'transverseDiameter_')
    stored = Poly.atom(('rd', tref))
    bad = []
    for facts_, lst, lr in leaves:
        if lr == ('throw',):
            continue
        val = None
        for k, v, q in lst['heap']:
            if k == tref:
                val = v
        if val is not None:
            if not (isinstance(val, Poly) and val == dpar):
                bad.append('a path stores %s' % sym.show(val))
            continue
        eq = sym.cmp0('eq0', stored - dpar, None)
        if eq not in facts_:
            bad.append('a path returns without storing the requested diameter although it may differ from the stored one (condition: %s)'
                       % '; '.join(sym.show(x)[:120] for x in facts_))
    n += 1
    rep.add('R15f', fn.name, 'stores-the-requested-diameter', not bad and bool(leaves), fn.where(fn.nodes[fn.body]),
            'on every path the stored diameter == the argument' if not bad else bad[0])
    for meth in ('transform',):
        fs = [f for f in F.by_name.get(PHS + '::' + meth, []) if f.body]
        fn = fs[0]
        ifs = [x for x in fn.nodes[fn.body]['ch'] if fn.nodes[x]['k'] == 'IfStmt']
        ok = False
        if ifs:
            i0 = fn.nodes[ifs[0]]
            names = [y.get('name') for y in fn.walk(i0['cond'])]
            neg = any(y['k'] == 'UnaryOperator' and y.get('op') == '!' for y in fn.walk(i0['cond']))
            thr = any(y['k'] == 'CXXThrowExpr' for y in fn.walk(i0['then']))
            first = fn.nodes[fn.body]['ch'][0] == ifs[0]
            ok = 'isTransformUpToDate_' in names and neg and thr and first
        n += 1
        rep.add('R15f', fn.name, 'guarded-by-flag', ok, fn.where(fn.nodes[fn.body]),
                'throws unless up to date' if ok else 'transform does not start with `if (!isTransformUpToDate_) throw`')
    rep.require_count('R15f', 'flag obligations', n, 5)


def r15g(rep, F):
    rep.rule('R15g', 'RNG::uniformInBall(r, v): v is first filled by uniformNormalVector(v), the scale is r * pow(uniformReal(0, 1), 1 / '
                     'v.size()) in normal form; uniformProlateHyperspheroid calls uniformInBall(1.0, sphere) then phsPtr->transform(sphere, '
                     'value); uniformProlateHyperspheroidSurface calls uniformNormalVector(sphere) then transform')
    fs = [f for f in F.by_name.get('ompl::RNG::uniformInBall', []) if f.body]
    if not fs:
        raise AnalysisBroken('anchor vanished: uniformInBall')
    fn = fs[0]
    m = sym.Machine(F, sym.Ctx(inline=None))
    st = {'env': {}, 'heap': [], 'alias': {}, 'this': ('T',), 'facts': []}
    st['env'][fn.params[0]['did']] = Poly.atom(('S', 'r'))
    st['env'][fn.params[1]['did']] = ('S', 'v')
    scale = None
    order = []
    for sid in fn.nodes[fn.body]['ch']:
        sn = fn.nodes[sid]
        x = fn.strip(sid)
        if x is not None and (x.get('callee') or '').endswith('::uniformNormalVector'):
            order.append('normal')
        if sn['k'] == 'DeclStmt' and sn.get('decls') and sn['decls'][0]['name'] == 'radiusScale':
            try:
                m.stmt(fn, sid, st, [])
                scale = st['env'][sn['decls'][0]['did']]
            except Unsupported as e:
                raise AnalysisBroken('R15g: radiusScale outside the fragment: %s' % e)
            order.append('scale')
        if x is not None and (x.get('callee') or '') == 'std::transform':
            order.append('apply')
    u = Poly.atom(('call', 'ompl::RNG::uniformReal', ('T',), Poly().key(), Poly.const(1).key()))
    n_ = Poly.atom(('call', 'std::vector::size', ('S', 'v')))
    want = Poly.atom(('S', 'r')) * Poly.atom(('app', 'pow', u.key(), sym.inv(n_).key()))
    ok = order == ['normal', 'scale', 'apply'] and isinstance(scale, Poly) and scale == want
    rep.add('R15g', fn.name, 'radius-law', ok, fn.where(fn.nodes[fn.body]),
            'direction, then r * U^(1/n)' if ok else 'steps %s, scale %s' % (order, sym.show(scale) if isinstance(scale, Poly) else scale))
    for meth, first, a0 in (('uniformProlateHyperspheroid', 'uniformInBall', True), ('uniformProlateHyperspheroidSurface', 'uniformNormalVector', False)):
        fs = [f for f in F.by_name.get('ompl::RNG::' + meth, []) if f.body]
        if not fs:
            raise AnalysisBroken('anchor vanished: ' + meth)
        fn = fs[0]
        calls = [c for c in fn.walk() if (c.get('callee') or '').split('::')[-1] in ('uniformInBall', 'uniformNormalVector', 'transform')]
        seq = [(c['callee'].split('::')[-1]) for c in calls]
        ok = seq == [first, 'transform']
        if ok and a0:
            r0 = lin.lin(fn, args(fn, calls[0])[0])
            ok = r0 == {1: 1}
        if ok:
            # the vector drawn is the vector transformed, the output is the caller's array
            drawn = [y.get('did') for y in fn.walk(args(fn, calls[0])[-1]) if y['k'] == 'DeclRefExpr']
            fed = [y.get('did') for y in fn.walk(args(fn, calls[1])[0]) if y['k'] == 'DeclRefExpr']
            outp = [y.get('did') for y in fn.walk(args(fn, calls[1])[1]) if y['k'] == 'DeclRefExpr']
            ok = bool(drawn) and drawn == fed and outp == [fn.params[1]['did']]
        rep.add('R15g', fn.name, 'draw-then-transform', ok, fn.where(fn.nodes[fn.body]),
                '%s then transform' % first if ok else 'calls are %s' % seq)


def r15h(rep, F):
    rep.rule('R15h', 'erase-while-iterating in the informed samplers: in every loop whose body re-assigns its iterator from '
                     'container.erase(iterator), each path through one iteration advances the iterator exactly once -- by the '
                     'erase or by ++, never both (a for-loop\'s own increment counts).  In updatePhsDefinitions a skipped entry is a '
                     'hyperspheroid that keeps its previous, larger diameter: states with a cost above the bound are returned')
    from engine.shape import erase_loops, erase_loop_verdict
    n = 0
    for f in F.functions:
        if '/samplers/informed/' not in f.file and 'ProlateHyperspheroid' not in f.file:
            continue
        seen = set()
        for lp, itkey, x in erase_loops(f):
            if lp['id'] in seen:
                continue
            seen.add(lp['id'])
            n += 1
            why = erase_loop_verdict(f, lp, itkey)
            rep.add('R15h', f.name, 'iterator-advances-once[%s]' % re.sub(r'#\d+', '', itkey), why is None, f.where(x), why or
                    'every path through the loop body advances the iterator exactly once')
    rep.require_count('R15h', 'erase-while-iterating loops', n, 1)


def r15i(rep, F):
    rep.rule('R15i', 'a sampler that overrides heuristicSolnCost uses its own heuristic in its acceptance tests: inside the member functions of '
                     'such a class every call of heuristicSolnCost resolves to the class\'s own override (unqualified, virtually dispatched); a '
                     'call qualified with the base class bypasses the override, so the lower / upper cost tests are made against a different '
                     'cost than the one the sampled region is defined by.  And the clamp of the direct sampler\'s measure: the informed '
                     'measure, multiplied by the measure of the uninformed subspace, is bounded by the measure of the WHOLE space '
                     '(InformedSampler::space_), not of a subspace')
    n = 0
    owners = sorted({f.record for f in F.functions if f.name.endswith('::heuristicSolnCost') and f.body and f.record and
                     f.record != B + 'InformedSampler'})
    for rec in owners:
        for f in F.functions:
            if f.record != rec or not f.body:
                continue
            for c in f.walk():
                if (c.get('callee') or '').endswith('::heuristicSolnCost'):
                    n += 1
                    own = c['callee'] == rec + '::heuristicSolnCost'
                    k = len([1 for o in rep.obl if o['rule'] == 'R15i' and o['function'] == f.name and o['role'].startswith('own-heuristic')])
                    rep.add('R15i', f.name, 'own-heuristic#%d' % k, own, f.where(c),
                            'calls its own override' if own else
                            'calls %s explicitly: the override %s::heuristicSolnCost, which defines the sampled region, is bypassed' %
                            (c['callee'], rec.split('::')[-1]))
    fs = [f for f in F.by_name.get(PLD + '::getInformedMeasure', []) if f.body and len(f.params) == 1]
    if not fs:
        raise AnalysisBroken('anchor vanished: getInformedMeasure')
    fn = fs[0]
    mins = [c for c in fn.walk() if (c.get('callee') or '') == 'std::min' and any(a['k'] == 'ReturnStmt' for a in fn.ancestors(c['id']))]
    mult_sub = any(x['k'] == 'BinaryOperator' and x.get('op') == '*' and 'uninformedSubSpace_' in fn.fp(x['id']) for x in fn.walk())
    n += 1
    if not mins:
        rep.add('R15i', fn.name, 'clamped-by-whole-space', False, fn.where(fn.nodes[fn.body]), 'the returned measure is not clamped by the measure of the space')
    else:
        whole = [a for a in mins[0]['ch'] if (fn.strip(a) or {}).get('callee', '').endswith('::getMeasure') and
                 re.search(r'this\.space_\b|InformedSampler::space_', fn.fp(a))]
        sub = [a for a in mins[0]['ch'] if (fn.strip(a) or {}).get('callee', '').endswith('::getMeasure') and 'SubSpace_' in fn.fp(a)]
        ok = bool(whole) and not sub
        rep.add('R15i', fn.name, 'clamped-by-whole-space', ok, fn.where(mins[0]),
                'min(space_->getMeasure(), informed measure)' if ok else
                'the measure%s is clamped by %s: in a compound space the product exceeds the subspace measure long before it exceeds the '
                'whole space' % (' (already multiplied by the uninformed subspace measure)' if mult_sub else '',
                                 re.sub(r'#\d+', '', fn.fp(sub[0])) if sub else 'something other than the whole space'))
    rep.require_count('R15i', 'own-heuristic calls and the measure clamp', n, 2)


def r15j(rep, F):
    rep.rule('R15j', 'rejection sampling re-draws every random choice per attempt: in the retry loops of the direct sampler the hyperspheroid a '
                     'candidate is drawn from (randomPhsPtr()) is chosen inside the loop, in the same iteration as the draw '
                     '(uniformProlateHyperspheroid(phs, ...)).  A choice hoisted out of the loop is made once per call: each PHS then receives '
                     'its full measure share of the returned samples however many of its candidates the bounds or the 1/K overlap rule '
                     'reject, so the union of several PHSs clipped by the bounds is no longer sampled uniformly')
    n = 0
    for f in F.functions:
        if f.record != PLD or not f.body:
            continue
        for lp in [x for x in f.walk() if x['k'] in ('WhileStmt', 'DoStmt', 'ForStmt') and x.get('body')]:
            draws = [c for c in f.walk(lp['body']) if (c.get('callee') or '').endswith('::uniformProlateHyperspheroid')]
            if not draws:
                continue
            n += 1
            phs = key(f, args(f, draws[0])[0])
            inside = [c for c in f.walk(lp['body']) if (c.get('callee') or '').endswith('::randomPhsPtr')]
            decl_in = any(x['k'] == 'DeclStmt' and any('%s#%d' % (d['name'], d['did']) == phs for d in x.get('decls', [])) for x in f.walk(lp['body'])) or \
                any(x['k'] in ('BinaryOperator', 'CXXOperatorCallExpr') and (x.get('op') == '=' or x.get('oop') == '=') and key(f, x['ch'][0]) == phs
                    for x in f.walk(lp['body']))
            ok = bool(inside) and decl_in
            rep.add('R15j', f.name, 'choice-redrawn-per-attempt', ok, f.where(lp),
                    'the hyperspheroid is chosen in the iteration that draws from it' if ok else
                    'the hyperspheroid %s is chosen outside the retry loop: every attempt of one call draws from the same PHS' % re.sub(r'#\d+', '', phs or '?'))
    rep.require_count('R15j', 'retry loops that draw from a hyperspheroid', n, 1)


def run(rep):
    F = facts.load_units(UNITS)
    rep.units.update(UNITS)
    rep.functions.update(f.key for f in F.functions if any(s in (f.record or '') for s in ('InfSampler', 'InformedSampler', 'ProlateHyperspheroid'))
                         or f.name.startswith('ompl::RNG::uniform') or f.file.endswith('GeometricEquations.cpp'))
    r15a(rep, F)
    r15b(rep, F)
    r15c(rep, F)
    r15d(rep, F)
    r15e(rep, F)
    r15f(rep, F)
    r15g(rep, F)
    r15h(rep, F)
    r15i(rep, F)
    r15j(rep, F)
    rep.undecided('R15x', PHS + '::updateRotation', 'rotation', 'that the SVD solution of the Wahba problem is a rotation taking the first axis '
                  'to the focal axis is linear algebra; not decided')
    rep.undecided('R15x', 'ompl::RNG::uniformProlateHyperspheroid', 'uniformity', 'uniform density over the hyperspheroid is a statement about '
                  'distributions; only the radius law and the order of the steps are decided')
