"""C06 -- metric laws each state space claims (structural clauses, decided in algebraic normal form, engine E10).

R06a compound folds: CompoundStateSpace::distance is SUM_i weights_[i] * components_[i]->distance(c1[i], c2[i]) over all
     components, getMaximumExtent the same fold over getMaximumExtent(), equalStates the conjunction over all
     components, and isMetricSpace / hasSymmetricDistance / hasSymmetricInterpolate the conjunction of the component
     flags (a missing override inherits the constant `true`)
R06b wrapper spaces forward distance / equalStates / getMaximumExtent / the three flags to the wrapped space with the
     unwrapped arguments in order; direction-dependent spaces (Dubins family) do not claim to be metric
R06c swap symmetry: under the condition that hasSymmetricDistance() returns true, the normal form of distance(a, b)
     equals that of distance(b, a)  (induction hypothesis for component calls: components of a space that claims
     symmetry are symmetric -- that the compound flag is the conjunction is R06a)
R06d zero on self: the normal form of distance(a, a) is 0 and of equalStates(a, a) is true
R06e equality and distance agree on their zero set: every representation symmetry under which distance is invariant
     (SO(3): q and -q) leaves equalStates invariant, and every field equalStates compares is read by distance
R06f Dubins: every return of the two path constructors depends (data or control) on all pose coordinates -- a return that
     ignores a coordinate yields distance ~0 between states that differ in it
"""
import re
from engine import facts, sym
from engine.facts import AnalysisBroken, src
from engine.sym import Poly, Unsupported

B = 'ompl::base::'
SP = lambda *p: src('base', 'spaces', *p)
UNITS = [src('base', 'src', 'StateSpace.cpp'),
         SP('src', 'RealVectorStateSpace.cpp'), SP('src', 'SO2StateSpace.cpp'), SP('src', 'SO3StateSpace.cpp'),
         SP('src', 'SE2StateSpace.cpp'), SP('src', 'SE3StateSpace.cpp'), SP('src', 'TimeStateSpace.cpp'),
         SP('src', 'DiscreteStateSpace.cpp'), SP('src', 'DubinsStateSpace.cpp'), SP('src', 'ReedsSheppStateSpace.cpp'),
         SP('src', 'SpaceTimeStateSpace.cpp'), SP('src', 'WrapperStateSpace.cpp'), SP('src', 'OwenStateSpace.cpp'),
         SP('src', 'VanaStateSpace.cpp'), SP('src', 'VanaOwenStateSpace.cpp'),
         SP('special', 'src', 'SphereStateSpace.cpp'), SP('special', 'src', 'TorusStateSpace.cpp'),
         SP('special', 'src', 'MobiusStateSpace.cpp'), SP('special', 'src', 'KleinBottleStateSpace.cpp'),
         src('geometric', 'planners', 'cforest', 'src', 'CForestStateSpaceWrapper.cpp')]
SIG2 = '(const ompl::base::State *, const ompl::base::State *) const'
A, Bs = ('S', 'A'), ('S', 'B')
DIST, EQ = B + 'StateSpace::distance', B + 'StateSpace::equalStates'

# spaces whose distance goes through an opaque path solver: the laws live in the solver's arithmetic
SOLVER = {
    B + 'DubinsStateSpace': 'distance = rho * dubins(a, b).length(): the word solvers are not normalisable',
    B + 'ReedsSheppStateSpace': 'distance = rho * reedsShepp(a, b).length(): symmetric only through the time-flip/reflect word families',
    'ompl::base::OwenStateSpace': 'path solver', 'ompl::base::VanaStateSpace': 'path solver', 'ompl::base::VanaOwenStateSpace': 'path solver',
}
# swap symmetry that holds but not syntactically
SWAP_UNDECIDED = {
    B + 'KleinBottleStateSpace': 'seam branch reverses v2 only ("valid for both directions"): |pi - s| and |pi + s| fold to the same '
                                 'value through the 2*pi - d wrap, which is arithmetic the normal form does not capture',
    B + 'ReedsSheppStateSpace': SOLVER[B + 'ReedsSheppStateSpace'],
}
SELF_UNDECIDED = dict(SOLVER)
SELF_UNDECIDED[B + 'SpaceTimeStateSpace'] = ('d(a,a) = (eps_ < 0 ? inf : 0): zero iff the member eps_ is non-negative, a configuration value; '
                                              'the space is not one of those the property lists')
# representation symmetries of the state under which the distance is invariant (frozen; confirmed by the rule itself)
REPR_SYMMETRY = {B + 'SO3StateSpace': 'negate'}
WRAPPERS = (B + 'WrapperStateSpace', 'ompl::base::CForestStateSpaceWrapper')
FORWARDED = ('distance', 'equalStates', 'getMaximumExtent', 'isMetricSpace', 'hasSymmetricDistance', 'hasSymmetricInterpolate')


def definer(F, rec, meth, sig=None):
    """nearest class up the base chain that defines rec::meth"""
    seen = set()
    todo = [rec]
    while todo:
        r = todo.pop(0)
        if r in seen:
            continue
        seen.add(r)
        fs = [f for f in F.by_name.get(r + '::' + meth, []) if f.body and (sig is None or f.sig.endswith(sig) or sig in f.sig)]
        if fs:
            return fs[0]
        d = F.record(r, required=False)
        if d:
            todo.extend(d['bases'])
    return None


def mk_ctx(F, rec, extra_lt0=(), claim=True):
    inline = sym.resolver(F, deny=('dubins', 'reedsShepp', 'getPath', 'length', 'satisfiesBounds', 'getMaximumExtent'))
    ax = dict(symmetric_calls=[DIST] if claim else [], self_zero_calls=[DIST], self_true_calls=[EQ])
    consts = {}
    unit = []
    if rec == B + 'SO3StateSpace':
        # MAX_QUATERNION_NORM_ERROR: read its value from the source (only its sign matters)
        txt = open(src('base', 'spaces', 'src', 'SO3StateSpace.cpp')).read()
        m = re.search(r'MAX_QUATERNION_NORM_ERROR\s*=\s*([0-9.eE+-]+)', txt)
        if not m:
            raise AnalysisBroken('MAX_QUATERNION_NORM_ERROR initialiser not found')
        consts[('g', 'MAX_QUATERNION_NORM_ERROR')] = float(m.group(1))
        for s in (A, Bs):
            unit.append(tuple(('rd', ('F', s, c)) for c in 'xyzw'))
    return sym.Ctx(inline=inline, consts=consts, unit_norm=unit, **ax)


def nf(F, fn, binding, ctx, facts_=()):
    m = sym.Machine(F, ctx)
    st = {'env': {}, 'heap': [], 'alias': {}, 'this': ('T',), 'facts': list(facts_)}
    for p in fn.params:
        st['env'][p['did']] = binding[p['name']]
    r = m.block(fn, [fn.body], st)
    return None if r is sym.FALL else r


def pnames(fn):
    return [p['name'] for p in fn.params]


def spaces(F):
    subs = sorted(F.subclasses(B + 'StateSpace') | {B + 'StateSpace'})
    out = []
    for r in subs:
        fs = [f for f in F.by_name.get(r + '::distance', []) if f.body and f.sig.endswith(SIG2) and not f.d.get('static')]
        if fs:
            out.append((r, fs[0]))
    return out


def all_of_components(F, fn, meth):
    """return std::all_of(components_.begin(), components_.end(), [](c) { return c->meth(); })"""
    rets = [r for r in fn.walk() if r['k'] == 'ReturnStmt' and r['ch']]
    if len(rets) != 1:
        return False
    c = fn.strip(rets[0]['ch'][0])
    if c is None or c.get('callee') != 'std::all_of' or len(c['ch']) != 3:
        return False
    a0, a1 = fn.strip(c['ch'][0]), fn.strip(c['ch'][1])
    if not (a0 and a1 and a0.get('callee') == 'std::vector::begin' and a1.get('callee') == 'std::vector::end'):
        return False
    for x in (a0, a1):
        m = fn.strip(x['ch'][0])
        if m is None or m.get('q') != B + 'CompoundStateSpace::components_':
            return False
    lams = F.lambdas_of.get(fn.d.get('did')) or F.lambdas_of.get(fn.name) or []
    lams = [l for l in lams if l.file == fn.file and fn.d['line'] <= l.d['line'] <= fn.d['endline']]
    if len(lams) != 1:
        return False
    lam = lams[0]
    lr = [r for r in lam.walk() if r['k'] == 'ReturnStmt' and r['ch']]
    if len(lr) != 1 or len(lam.params) != 1:
        return False
    call = lam.strip(lr[0]['ch'][0])
    if call is None or not (call.get('callee') or '').endswith('StateSpace::' + meth):
        return False
    recv = [x for x in lam.walk(call['ch'][0]) if x['k'] == 'DeclRefExpr']
    return len(recv) == 1 and recv[0].get('did') == lam.params[0]['did']


def r06a(rep, F):
    rep.rule('R06a', 'CompoundStateSpace folds in normal form: distance == SUM_{i<componentCount_} weights_[i] * '
                     'components_[i]->distance(c1->components[i], c2->components[i]); getMaximumExtent the same fold over '
                     'getMaximumExtent() (optionally skipping zero weights); equalStates == !EXISTS_i !components_[i]->equalStates(..); '
                     'isMetricSpace / hasSymmetricDistance / hasSymmetricInterpolate are all_of over components_ of the same flag')
    C = B + 'CompoundStateSpace'
    T = ('T',)
    i = Poly.atom(('bv', 1))
    comp = lambda s: ('I', ('F', s, 'components'), i.key())
    sub = ('I', ('F', T, 'components_'), i.key())
    w = Poly.atom(('rd', ('I', ('F', T, 'weights_'), i.key())))
    lo, hi = Poly(), Poly.atom(('rd', ('F', T, 'componentCount_')))
    ctx = sym.Ctx(inline=sym.resolver(F))

    def canon_sum(term):
        t = term.subst(lambda a: Poly.atom(('bv', 0)) if a == ('bv', 1) else None)
        return Poly.atom(('sum', lo.key(), hi.key(), t.key()))

    f = F.one(C + '::distance', sig_contains=SIG2)
    try:
        got = nf(F, f, dict(zip(pnames(f), (A, Bs))), ctx)
        want = canon_sum(w * Poly.atom(('call', DIST, sub, comp(A), comp(Bs))))
        rep.add('R06a', f.name, 'weighted-sum', sym._same(got, want), f.where(f.nodes[f.body]),
                'distance == %s' % sym.show(want) if sym._same(got, want) else 'distance is %s, expected %s' % (sym.show(got), sym.show(want)))
    except Unsupported as e:
        raise AnalysisBroken('R06a: %s is outside the normalisable fragment: %s' % (f.name, e))

    f = F.one(C + '::getMaximumExtent')
    try:
        got = nf(F, f, {}, ctx)
        ext = Poly.atom(('call', B + 'StateSpace::getMaximumExtent', sub))
        want = canon_sum(w * ext)
        ok = sym._same(got, want)
        if not ok and isinstance(got, Poly) and len(got.t) == 1:
            # guarded form: SUM (cond(weights_[i]) ? w*ext : 0)
            (m, c), = got.t.items()
            if c == 1 and len(m) == 1 and m[0][0][0] == 'sum' and m[0][0][1:3] == (lo.key(), hi.key()):
                term = sym.from_key(m[0][0][3])
                if len(term.t) == 1:
                    (m2, c2), = term.t.items()
                    at = m2[0][0] if len(m2) == 1 else None
                    if c2 == 1 and at and at[0] == 'ite' and sym.from_key(at[3]) == Poly():
                        cond_atoms = set()
                        _atoms(at[1], cond_atoms)
                        wexp = ('rd', ('I', ('F', T, 'weights_'), Poly.atom(('bv', 0)).key()))
                        only_w = all(a == wexp or a in sym.CONSTS for a in cond_atoms)
                        want0 = (w * ext).subst(lambda a: Poly.atom(('bv', 0)) if a == ('bv', 1) else None)
                        ok = only_w and sym.from_key(at[2]) == want0
        rep.add('R06a', f.name, 'weighted-sum', ok, f.where(f.nodes[f.body]),
                'extent == SUM weights_[i] * components_[i]->getMaximumExtent() (zero weights skipped)' if ok else
                'extent is %s, expected %s' % (sym.show(got), sym.show(want)))
    except Unsupported as e:
        raise AnalysisBroken('R06a: %s is outside the normalisable fragment: %s' % (f.name, e))

    f = F.one(C + '::equalStates', sig_contains=SIG2)
    try:
        got = nf(F, f, dict(zip(pnames(f), (A, Bs))), ctx)
        e = ('b', ('call', EQ, sub, comp(A), comp(Bs)))
        want = sym.b_not(('ex', lo.key(), hi.key(), sym.b_not(e)))
        rep.add('R06a', f.name, 'conjunction', got == want, f.where(f.nodes[f.body]),
                'equalStates == all components equal' if got == want else 'equalStates is %s' % sym.show(got))
    except Unsupported as e:
        raise AnalysisBroken('R06a: %s is outside the normalisable fragment: %s' % (f.name, e))

    for meth in ('isMetricSpace', 'hasSymmetricDistance', 'hasSymmetricInterpolate'):
        fs = [x for x in F.by_name.get(C + '::' + meth, []) if x.body]
        if not fs:
            inh = definer(F, B + 'StateSpace', meth)
            rep.add('R06a', C + '::' + meth, 'flag-conjunction', False, inh.where(inh.nodes[inh.body]) if inh else '',
                    'CompoundStateSpace does not override %s(): it inherits the constant answer of StateSpace although a component '
                    'may answer false' % meth)
            continue
        ok = all_of_components(F, fs[0], meth)
        rep.add('R06a', fs[0].name, 'flag-conjunction', ok, fs[0].where(fs[0].nodes[fs[0].body]),
                'all_of(components_, %s)' % meth if ok else '%s() is not the conjunction of the components\' %s()' % (meth, meth))


def _atoms(x, out):
    if isinstance(x, tuple):
        if x and x[0] == 'poly':
            for a in sym.from_key(x).atoms():
                out.add(a)
                return_ = None
        else:
            for y in x:
                _atoms(y, out)


def r06b(rep, F):
    rep.rule('R06b', 'wrapper spaces (WrapperStateSpace, CForestStateSpaceWrapper) forward distance, equalStates, getMaximumExtent and '
                     'the three flags to the wrapped space: the normal form of each is the same-named call on space_ with the '
                     'arguments (unwrapped for WrapperStateSpace) in parameter order; spaces whose distance is an ordered path-solver '
                     'call return the literal false from isMetricSpace()')
    n = 0
    for W in WRAPPERS:
        if not F.record(W, required=False) and not F.by_name.get(W + '::distance'):
            raise AnalysisBroken('wrapper record vanished: ' + W)
        for meth in FORWARDED:
            fs = [x for x in F.by_name.get(W + '::' + meth, []) if x.body]
            if not fs:
                if W == B + 'WrapperStateSpace':
                    rep.add('R06b', W + '::' + meth, 'forward', False, '', 'WrapperStateSpace does not override %s(): the wrapped '
                            'space\'s answer is replaced by the base-class default' % meth)
                    n += 1
                continue
            f = fs[0]
            ctx = sym.Ctx(inline=None)
            names = pnames(f)
            bind = dict(zip(names, (A, Bs)))
            try:
                got = nf(F, f, bind, ctx)
            except Unsupported as e:
                raise AnalysisBroken('R06b: %s outside the fragment: %s' % (f.name, e))
            space = ('F', ('T',), 'space_')
            unwrap = (lambda s: ('call', B + 'WrapperStateSpace::StateType::getState', s)) if W == B + 'WrapperStateSpace' else (lambda s: s)
            want_args = tuple(unwrap(s) for s in (A, Bs)[:len(names)])
            ok = False
            at = None
            if isinstance(got, Poly) and len(got.t) == 1:
                (m, c), = got.t.items()
                if c == 1 and len(m) == 1 and m[0][1] == 1:
                    at = m[0][0]
            elif isinstance(got, tuple) and got and got[0] == 'b':
                at = got[1]
            if at and at[0] == 'call':
                recv = at[2]
                # shared_ptr operator-> on space_
                while isinstance(recv, tuple) and recv and recv[0] == 'call' and 'operator->' in recv[1] or \
                        (isinstance(recv, tuple) and recv and recv[0] == 'call' and recv[1].endswith('::get')):
                    recv = recv[2] if recv[2] is not None else recv[3]
                ok = at[1].endswith('StateSpace::' + meth) and recv == space and tuple(at[3:]) == want_args
            n += 1
            rep.add('R06b', f.name, 'forward', ok, f.where(f.nodes[f.body]),
                    'forwards to space_->%s' % meth if ok else '%s() is %s, not space_->%s(%s)' % (
                        meth, sym.show(got) if got is not None else 'void', meth, ', '.join(sym.show_ref(a) for a in want_args)))
    # direction-dependent spaces do not claim to be metric
    for rec, why in sorted(SOLVER.items()):
        if rec == B + 'ReedsSheppStateSpace':
            continue                      # Reeds-Shepp is symmetric; its triangle inequality is not decided here
        d = definer(F, rec, 'isMetricSpace')
        if d is None:
            continue
        rets = [r for r in d.walk() if r['k'] == 'ReturnStmt' and r['ch']]
        lit = [d.strip(r['ch'][0]) for r in rets]
        ok = len(lit) == 1 and lit[0] is not None and lit[0]['k'] == 'CXXBoolLiteralExpr' and not lit[0]['v'] and d.record == rec
        n += 1
        rep.add('R06b', rec + '::isMetricSpace', 'not-metric', ok, d.where(d.nodes[d.body]),
                'returns false' if ok else 'a space whose distance is an ordered path-solver call (%s) claims to be a metric space '
                '(isMetricSpace is %s)' % (why, d.name))
    rep.require_count('R06b', 'forwarding / flag obligations', n, 14)


def flag_fact(F, rec, meth, ctx):
    """normal form of rec::meth() as a boolean; 'ALLCOMP' when it is the compound conjunction"""
    d = definer(F, rec, meth)
    if d is None:
        raise AnalysisBroken('no definition of %s for %s' % (meth, rec))
    if d.record == B + 'CompoundStateSpace':
        return 'ALLCOMP', d
    try:
        v = nf(F, d, {}, ctx)
    except Unsupported as e:
        raise AnalysisBroken('%s outside the fragment: %s' % (d.name, e))
    return sym.Machine(F, ctx).truth(v), d


def r06cde(rep, F):
    rep.rule('R06c', 'for every StateSpace subclass that defines distance(a, b): assuming hasSymmetricDistance() (its own normal form) '
                     'is true, NF(distance(a, b)) == NF(distance(b, a)) modulo ring axioms, evenness of fabs/cos, oddness of sin, '
                     'commutativity of min/max and symmetry of the component calls')
    rep.rule('R06d', 'NF(distance(a, a)) == 0 and NF(equalStates(a, a)) == true (unit quaternions for SO(3))')
    rep.rule('R06e', 'equalStates is invariant under every representation symmetry under which distance is invariant (SO(3): q ~ -q), '
                     'and every field of the state that equalStates compares occurs in distance')
    nsw = nself = neq = 0
    for rec, f in spaces(F):
        if rec in WRAPPERS or F.subclasses(B + 'WrapperStateSpace') & {rec}:
            continue            # forwarding is R06b; constrained spaces are C16
        ctx = mk_ctx(F, rec)
        flag, fd = flag_fact(F, rec, 'hasSymmetricDistance', ctx)
        names = pnames(f)
        facts_ = [] if flag in ('ALLCOMP', True, False) else [flag]
        # ---- R06c
        if flag is False:
            rep.note('R06c %s claims no symmetry (%s)' % (rec, fd.name))
        elif rec in SWAP_UNDECIDED:
            rep.undecided('R06c', f.name, 'swap', SWAP_UNDECIDED[rec])
        else:
            try:
                ab = nf(F, f, dict(zip(names, (A, Bs))), ctx, facts_)
                ba = nf(F, f, dict(zip(names, (Bs, A))), ctx, facts_)
            except Unsupported as e:
                raise AnalysisBroken('R06c: %s outside the fragment: %s' % (f.name, e))
            ok = sym._same(ab, ba)
            nsw += 1
            rep.add('R06c', f.name, 'swap', ok, f.where(f.nodes[f.body]),
                    'd(a,b) == d(b,a) == %s' % sym.show(ab)[:200] if ok else
                    'claims a symmetric distance (%s) but d(a,b) = %s and d(b,a) = %s' % (fd.name, sym.show(ab)[:300], sym.show(ba)[:300]))
        # ---- R06d
        eqf = definer(F, rec, 'equalStates', SIG2)
        if rec in SELF_UNDECIDED:
            rep.undecided('R06d', f.name, 'self', SELF_UNDECIDED[rec])
        else:
            try:
                aa = nf(F, f, dict(zip(names, (A, A))), ctx, facts_)
            except Unsupported as e:
                raise AnalysisBroken('R06d: %s outside the fragment: %s' % (f.name, e))
            ok = isinstance(aa, Poly) and aa == Poly()
            nself += 1
            rep.add('R06d', f.name, 'self-distance', ok, f.where(f.nodes[f.body]),
                    'd(a,a) == 0' if ok else 'd(a,a) normalises to %s, not 0' % sym.show(aa)[:300])
        if eqf is not None and eqf.record == rec:
            try:
                ee = nf(F, eqf, dict(zip(pnames(eqf), (A, A))), ctx)
            except Unsupported as e:
                raise AnalysisBroken('R06d: %s outside the fragment: %s' % (eqf.name, e))
            nself += 1
            rep.add('R06d', eqf.name, 'self-equal', ee is True, eqf.where(eqf.nodes[eqf.body]),
                    'equalStates(a,a) == true' if ee is True else 'equalStates(a,a) normalises to %s' % sym.show(ee)[:300])
        # ---- R06e
        if eqf is not None and rec not in SOLVER:
            try:
                d_ab = nf(F, f, dict(zip(names, (A, Bs))), ctx, facts_)
                e_ab = nf(F, eqf, dict(zip(pnames(eqf), (A, Bs))), ctx)
            except Unsupported as e:
                raise AnalysisBroken('R06e: %s outside the fragment: %s' % (rec, e))
            dreads = set(_reads(d_ab.key() if isinstance(d_ab, Poly) else d_ab))
            ereads = set(_reads(e_ab.key() if isinstance(e_ab, Poly) else e_ab))
            ncomp = component_count(F, rec)
            if ncomp:
                ereads = set(x for r in ereads for x in expand_star(r, ncomp))
            missing = sorted(sym.show_ref(r) for r in ereads if not any(has_prefix(d, r) for d in dreads))
            neq += 1
            rep.add('R06e', f.name, 'fields', not missing, f.where(f.nodes[f.body]),
                    'every field equalStates (%s) compares is read by distance' % eqf.name if not missing else
                    'equalStates (%s) compares %s, which distance ignores: two states differing only there are unequal at distance 0'
                    % (eqf.name, ', '.join(missing)))
        if eqf is not None and eqf.record == rec and rec not in SOLVER:
            if rec in REPR_SYMMETRY:
                flip = ('N', Bs)
                try:
                    d_flip = nf(F, f, dict(zip(names, (A, flip))), ctx, facts_)
                    e_flip = nf(F, eqf, dict(zip(pnames(eqf), (A, flip))), ctx)
                except Unsupported as e:
                    raise AnalysisBroken('R06e: %s outside the fragment: %s' % (rec, e))
                if not sym._same(d_ab, d_flip):
                    raise AnalysisBroken('R06e: the frozen representation symmetry of %s is no longer a symmetry of its distance' % rec)
                ok = sym._same(e_ab, e_flip)
                neq += 1
                rep.add('R06e', eqf.name, 'representation-symmetry', ok, eqf.where(eqf.nodes[eqf.body]),
                        'equalStates(a, -b) == equalStates(a, b)' if ok else
                        'distance(a, -b) == distance(a, b) (so q and -q are at distance 0) but equalStates(a, -b) = %s differs from '
                        'equalStates(a, b) = %s: unequal states at distance 0' % (sym.show(e_flip)[:200], sym.show(e_ab)[:200]))
    rep.require_count('R06c', 'swap-symmetry instances', nsw, 9)
    rep.require_count('R06d', 'self-distance / self-equality instances', nself, 15)
    rep.require_count('R06e', 'equality/distance agreement instances', neq, 6)


def component_count(F, rec):
    """number of addSubspace calls in the constructors of a CompoundStateSpace subclass with a fixed layout"""
    if B + 'CompoundStateSpace' not in _bases(F, rec):
        return None
    short = rec.split('::')[-1]
    ctors = [f for f in F.by_name.get(rec + '::' + short, []) if f.body]
    counts = set(len([c for c in f.walk() if (c.get('callee') or '').endswith('CompoundStateSpace::addSubspace')]) for f in ctors)
    counts.discard(0)
    return counts.pop() if len(counts) == 1 else None


def _bases(F, rec):
    out, todo = set(), [rec]
    while todo:
        r = todo.pop()
        d = F.record(r, required=False)
        for b in (d['bases'] if d else []):
            if b not in out:
                out.add(b)
                todo.append(b)
    return out


def expand_star(r, n):
    if isinstance(r, tuple) and r:
        if r[0] == 'I' and r[2] == '*':
            return [('I', x, Poly.const(k).key()) for x in expand_star(r[1], n) for k in range(n)]
        if r[0] in ('F', 'N', 'I'):
            return [(r[0], x) + tuple(r[2:]) for x in expand_star(r[1], n)]
    return [r]


def has_prefix(d, r):
    """is reference r a prefix of (or equal to) reference d?"""
    while True:
        if d == r:
            return True
        if isinstance(d, tuple) and d and d[0] in ('F', 'I', 'N'):
            d = d[1]
        else:
            return False


EXT_SPACES = {
    # space: (in-bounds facts builder, reason when a clause is listed instead)
    B + 'SO2StateSpace': 'value',
    B + 'TimeStateSpace': 'position',
    B + 'DiscreteStateSpace': 'value',
    B + 'SO3StateSpace': None,
}


def bounds_facts(F, rec):
    """normal form of satisfiesBounds(x) for x in {a, b}, as lists of (poly <= 0) facts per path of satisfiesBounds"""
    f = definer(F, rec, 'satisfiesBounds')
    if f is None or f.record != rec:
        return None
    out = {}
    for s in (A, Bs):
        ctx = mk_ctx(F, rec)
        m = sym.Machine(F, ctx)
        m.split = 'all'
        st = {'env': {f.params[0]['did']: s}, 'heap': [], 'alias': {}, 'this': ('T',), 'facts': []}
        r = m.block(f, [f.body], st)
        out[s] = [(fa, lr) for fa, lst, lr in sym.leaves(r, st)]
    return out


def dnf(b):
    """disjunctive normal form of a boolean normal form: list of conjunctions (lists of literals)"""
    if b is True:
        return [[]]
    if b is False:
        return []
    if isinstance(b, tuple) and b and b[0] == 'and':
        out = [[]]
        for x in b[1:]:
            out = [c + d for c in out for d in dnf(x)]
        return out
    if isinstance(b, tuple) and b and b[0] == 'or':
        out = []
        for x in b[1:]:
            out += dnf(x)
        return out
    return [[b]]


def literal_polys(b):
    """[(Poly, strict)] for a numeric literal p <= 0 / p < 0, else None"""
    if isinstance(b, tuple) and b and b[0] in ('le0', 'lt0'):
        return [(sym.from_key(b[1]), b[0] == 'lt0')]
    return None


def expand_ite(p, facts_=()):
    """[(facts, poly)]: every undecided c ? x : y inside p is split into its two cases"""
    for a in p.atoms():
        if isinstance(a, tuple) and a[0] == 'ite':
            c = a[1]
            out = []
            for cond, key_ in ((c, a[2]), (sym.b_not(c), a[3])):
                q = p.subst(lambda z: sym.from_key(key_) if z == a else None)
                out += expand_ite(q, tuple(facts_) + (cond,))
            return out
    return [(tuple(facts_), p)]


def r06g(rep, F):
    rep.rule('R06g', 'distance <= getMaximumExtent() for in-bounds states, in normal form with one or two assumed facts: for SO(2), time, '
                     'discrete and SO(3) every path of distance(a, b), under the conjunction that satisfiesBounds(a) and satisfiesBounds(b) '
                     'return true on (the space\'s own normal form, tolerance terms dropped), has value - extent <= 0 on every path of '
                     'getMaximumExtent(); |x| is split into x and -x, acos(|.|) <= pi/2.  A difference that still depends on a state '
                     'field no assumed fact mentions is unbounded: a violation')
    n = 0
    half_pi = Poly.atom(('g', 'boost::math::double_constants::pi')).scale(sym.Fraction(1, 2))
    for rec in sorted(EXT_SPACES):
        fd_ = definer(F, rec, 'distance', SIG2)
        fe = definer(F, rec, 'getMaximumExtent')
        if fd_ is None or fe is None:
            raise AnalysisBroken('R06g: anchors vanished for ' + rec)
        # in-bounds facts: every disjunct of satisfiesBounds(a) && satisfiesBounds(b)
        bf = bounds_facts(F, rec)
        facts_sets = [([], [])]
        if bf is not None:
            per_state = []
            for s in (A, Bs):
                alts = []
                for fa, lr in bf[s]:
                    if isinstance(lr, Poly):
                        raise AnalysisBroken('R06g: satisfiesBounds of %s is not boolean' % rec)
                    for conj in dnf(lr):
                        nums, flags = [], list(fa)
                        for lit in conj:
                            lp = literal_polys(lit)
                            if lp is None:
                                flags.append(lit)
                            else:
                                nums += lp
                        alts.append((flags, nums))
                per_state.append(alts)
            facts_sets = [(x[0] + y[0], x[1] + y[1]) for x in per_state[0] for y in per_state[1]]
            facts_sets = [fs for fs in facts_sets if not any(sym.b_not(z) in fs[0] for z in fs[0])]
        probs_by = {}
        probs = []
        decided = 0
        for pathfacts, lits in facts_sets:
            ctx = mk_ctx(F, rec)
            ctx.pairs = True
            eps = ('app', 'std::numeric_limits::epsilon')
            for p, strict in lits:
                # drop tolerance terms (epsilon) from the bounds: v < pi + eps  ->  v <= pi
                p2 = Poly({m: c for m, c in p.t.items() if not any(a == eps for a, e in m)})
                ctx.le0.append(p2)
            m = sym.Machine(F, ctx)
            m.split = 'all'
            st = {'env': {}, 'heap': [], 'alias': {}, 'this': ('T',), 'facts': list(pathfacts)}
            for p_, v in zip(fd_.params, (A, Bs)):
                st['env'][p_['did']] = v
            try:
                r = m.block(fd_, [fd_.body], st)
                dleaves = sym.leaves(r, st)
                me = sym.Machine(F, mk_ctx(F, rec))
                me.split = 'all'
                ste = {'env': {}, 'heap': [], 'alias': {}, 'this': ('T',), 'facts': list(pathfacts)}
                re_ = me.block(fe, [fe.body], ste)
                eleaves = sym.leaves(re_, ste)
            except Unsupported as e:
                raise AnalysisBroken('R06g: %s outside the fragment: %s' % (rec, e))
            for dfa, dst, dv0 in dleaves:
                for efa, est, ev0 in eleaves:
                    if not isinstance(dv0, Poly) or not isinstance(ev0, Poly):
                        raise AnalysisBroken('R06g: non-numeric distance / extent for ' + rec)
                    for xf, diff_ in expand_ite(dv0 - ev0):
                        fs = set(dfa) | set(efa) | set(xf) | set(pathfacts)
                        if any(sym.b_not(x) in fs for x in fs) or False in fs:
                            continue                     # contradictory paths
                        c2 = mk_ctx(F, rec)
                        c2.pairs = True
                        c2.le0 = list(ctx.le0)
                        for x in fs:
                            for p, strict in (literal_polys(x) or []):
                                (c2.lt0 if strict else c2.le0).append(p)
                        base_mentioned = set()
                        for q in c2.le0 + c2.lt0:
                            base_mentioned |= set(q.atoms())
                        for alt, extra in expand_abs_cases(diff_, c2, half_pi):
                            decided += 1
                            c3 = mk_ctx(F, rec)
                            c3.pairs = True
                            c3.le0, c3.lt0 = list(extra[0]), list(extra[1])
                            sg = c3.sign(alt)
                            if sg not in ('<0', '<=0', '=0'):
                                # one round of Fourier-Motzkin closure over the non-strict facts: p <= 0 and q <= 0 give p + q <= 0; so that, with the engine's own pairing,
                                # up to four facts combine (min <= A, A <= max, min <= B, B <= max give min <= max and B - A <= max - min).  An extent that is LARGER than needed must not
                                # be reported: "not shown" is only claimed after this stronger, still purely linear, argument fails too
                                derived = []
                                for i_, p_ in enumerate(c3.le0):
                                    for q_ in c3.le0[i_ + 1:]:
                                        try:
                                            derived.append(p_ + q_)
                                        except Exception:
                                            pass
                                if derived and len(derived) <= 120:
                                    c3.le0 = c3.le0 + derived
                                    sg = c3.sign(alt)
                            c2_saved, c2 = c2, c3
                            if sg in ('<0', '<=0', '=0'):
                                c2 = c2_saved
                                continue
                            mentioned = base_mentioned
                            free = [a for a in alt.atoms() if isinstance(a, tuple) and a[0] == 'rd' and _rooted(a[1]) and a not in mentioned]
                            cond_txt = [sym.show(x)[:70] for x in fs if x is not True] or 'no condition'
                            flags = sorted(sym.show(x)[:60] for x in fs if x is not True and literal_polys(x) is None)
                            probs_by.setdefault('; '.join(flags), [])
                            probs = probs_by['; '.join(flags)]
                            if free:
                                probs.append('under %s distance - extent = %s, and no in-bounds fact constrains %s: the distance exceeds '
                                             'the reported extent' % (cond_txt, sym.show(alt)[:120], sym.show_atom(free[0])))
                            else:
                                probs.append('distance - extent = %s is not shown <= 0 under %s' % (sym.show(alt)[:160], cond_txt))
                            c2 = c2_saved
        n += 1
        if not probs_by:
            rep.add('R06g', fd_.name, 'within-extent', decided > 0, fd_.where(fd_.nodes[fd_.body]), 'distance <= extent on %d case(s)' % decided)
        for flags, pl in sorted(probs_by.items()):
            pl.sort(key=lambda t: 0 if 'exceeds' in t else 1)
            rep.add('R06g', fd_.name, 'within-extent' + ('[%s]' % flags if flags else ''), False, fd_.where(fd_.nodes[fd_.body]), pl[0])
    rep.undecided('R06g', B + 'RealVectorStateSpace::distance', 'within-extent', 'needs monotonicity of the Euclidean norm in each |a_i - b_i| <= high_i - low_i; '
                  'not a one- or two-fact linear argument')
    rep.require_count('R06g', 'extent instances', n, 4)


def expand_abs_cases(p, ctx, half_pi):
    """[(poly, (le0 facts, lt0 facts))]: case split on the sign of every |x| occurring in p or in the assumed facts (|x| = x with
    -x <= 0, or |x| = -x with x <= 0), applied consistently to the expression and to the facts; acos(|x|) <= pi/2"""
    le0, lt0 = list(ctx.le0), list(ctx.lt0)

    def find(polys):
        for q in polys:
            for a in q.atoms():
                if isinstance(a, tuple) and a[0] == 'app' and a[1] == 'fabs':
                    return a
        return None
    cases = [(p, le0, lt0)]
    out = []
    while cases:
        q, l0, l1 = cases.pop()
        a = find([q] + l0 + l1)
        if a is None:
            # acos(y) <= pi/2 when the facts give y >= 0
            c = sym.Ctx()
            c.pairs = True
            c.le0, c.lt0 = l0, l1
            for at in list(q.atoms()):
                if isinstance(at, tuple) and at[0] == 'app' and at[1] == 'acos' and len(at) == 3:
                    coef = [cf for m_, cf in q.t.items() if m_ == ((at, 1),)]
                    if len(coef) == 1 and c.sign(sym.from_key(at[2])) in ('>0', '>=0', '=0'):
                        q = q.subst(lambda z, at=at, cf=coef[0]: (half_pi if cf > 0 else Poly()) if z == at else None)
            for alt in expand_abs(q, half_pi):
                out.append((alt, (l0, l1)))
            continue
        x = sym.from_key(a[2])
        for sgn in (1, -1):
            rep_ = x.scale(sgn)
            sub = lambda z, rep_=rep_: rep_ if z == a else None
            cases.append((q.subst(sub), [f.subst(sub) for f in l0] + [x.scale(-sgn)], [f.subst(sub) for f in l1]))
    return out


def expand_abs(p, half_pi):
    """alternatives of p with every |x| replaced by x and by -x, and acos(|x|) by its upper bound pi/2"""
    alts = [p]
    changed = True
    while changed:
        changed = False
        new = []
        for q in alts:
            hit = None
            for a in q.atoms():
                if isinstance(a, tuple) and a[0] == 'app' and a[1] == 'fabs':
                    hit = ('abs', a)
                    break
                if isinstance(a, tuple) and a[0] == 'app' and a[1] == 'acos' and 'fabs' in repr(a[2]):
                    hit = ('acos', a)
                    break
            if hit is None:
                new.append(q)
                continue
            changed = True
            kind, a = hit
            coef = [c for m_, c in q.t.items() if m_ == ((a, 1),)]
            if len(coef) != 1 or any(a in dict(m_) and m_ != ((a, 1),) for m_ in q.t):
                new.append(q.subst(lambda z: Poly.atom(('opaque', a)) if z == a else None))
                continue
            if kind == 'abs':
                x = sym.from_key(a[2])
                new.append(q.subst(lambda z: x if z == a else None))
                new.append(q.subst(lambda z: -x if z == a else None))
            else:
                if coef[0] > 0:
                    new.append(q.subst(lambda z: half_pi if z == a else None))
                else:
                    new.append(q.subst(lambda z: Poly() if z == a else None))
        alts = new
    return alts


def _rooted(r):
    root = r
    while isinstance(root, tuple) and root and root[0] in ('F', 'I', 'N'):
        root = root[1]
    return root in (A, Bs)


def _reads(x):
    """state fields a normal form depends on: every rd(ref) and every reference passed to an opaque call, rooted at a or b"""
    if not isinstance(x, (tuple, list, set, frozenset)):
        return
    if isinstance(x, tuple) and x:
        if x[0] == 'rd' and _rooted(x[1]):
            yield _strip_idx(x[1])
        elif x[0] == 'call':
            for y in x[3:]:
                if isinstance(y, tuple) and y and y[0] in ('F', 'I', 'S', 'N') and _rooted(y):
                    yield _strip_idx(y)
    for y in x:
        yield from _reads(y)


def _strip_idx(r):
    """A.values[i] -> A.values[*]  (loop indices are compared through the loop bounds by the normal form itself)"""
    if isinstance(r, tuple) and r:
        if r[0] == 'I':
            k = r[2]
            p = sym.from_key(k)
            if p.mentions(lambda a: isinstance(a, tuple) and a and a[0] == 'bv'):
                return ('I', _strip_idx(r[1]), '*')
            return ('I', _strip_idx(r[1]), k)
        if r[0] in ('F', 'N'):
            return (r[0], _strip_idx(r[1])) + tuple(r[2:])
    return r


def depends(fn):
    """for every ReturnStmt: set of parameter / root names its value and its control conditions depend on (flow-insensitive
    closure over local definitions)"""
    defs = {}
    for n in fn.walk():
        if n['k'] == 'DeclStmt':
            for d in n.get('decls', []):
                if d.get('init'):
                    defs.setdefault(d['did'], []).append(d['init'])
        elif n['k'] in ('BinaryOperator', 'CompoundAssignOperator') and n.get('op', '').endswith('=') and n.get('op') not in ('==', '!=', '<=', '>='):
            t = fn.strip(n['ch'][0])
            if t is not None and t['k'] == 'DeclRefExpr':
                defs.setdefault(t['did'], []).append(n['ch'][1])
    pids = {p['did']: p['name'] for p in fn.params}

    def closure(nid, seen):
        out = set()
        for x in fn.walk(nid):
            if x['k'] == 'DeclRefExpr':
                if x.get('did') in pids:
                    out.add(pids[x['did']])
                elif x.get('did') in defs and x['did'] not in seen:
                    seen.add(x['did'])
                    for i in defs[x['did']]:
                        out |= closure(i, seen)
        return out
    res = []
    for r in fn.walk():
        if r['k'] != 'ReturnStmt' or not r['ch']:
            continue
        dep = closure(r['ch'][0], set())
        for a in fn.ancestors(r['id']):
            an = a
            if an['k'] == 'IfStmt' and an.get('cond'):
                dep |= closure(an['cond'], set())
            # returns after an earlier `if (...) return` are control dependent on that condition too
        blk = fn.nodes[fn.body]
        for s in blk['ch']:
            sn = fn.nodes[s]
            if sn['id'] == r['id'] or r['id'] in [x['id'] for x in fn.walk(s)]:
                break
            if sn['k'] == 'IfStmt' and any(x['k'] == 'ReturnStmt' for x in fn.walk(sn['then'])):
                dep |= closure(sn['cond'], set())
        res.append((r, dep))
    return res


def r06f(rep, F):
    rep.rule('R06f', 'Dubins path constructors: every return of DubinsStateSpace::dubins(state1, state2, radius) depends on both states '
                     'through x, y and yaw of each, and every return of the word selector dubins(d, alpha, beta) depends on all three '
                     'of d, alpha, beta (data dependence of the returned value plus control dependence on the guarding conditions)')
    n = 0
    f = [x for x in F.by_name.get(B + 'DubinsStateSpace::dubins', []) if x.body and len(x.params) == 3]
    if not f:
        raise AnalysisBroken('DubinsStateSpace::dubins(state1, state2, radius) vanished')
    f = f[0]
    # coordinates: locals initialised from getX/getY/getYaw of each state
    coord = {}
    for nd in f.walk():
        if nd['k'] == 'DeclStmt':
            for d in nd.get('decls', []):
                if d.get('init'):
                    c = f.strip(d['init'])
                    if c is not None and (c.get('callee') or '').split('::')[-1] in ('getX', 'getY', 'getYaw'):
                        roots = [x.get('name') for x in f.walk(c['id']) if x['k'] == 'DeclRefExpr']
                        coord[d['did']] = (c['callee'].split('::')[-1], roots[0] if roots else '?')
    if len(coord) != 6:
        raise AnalysisBroken('R06f: expected six pose coordinates in %s, found %d' % (f.name, len(coord)))
    # dependence on coordinates: closure that stops at the coordinate locals
    defs = {}
    for nd in f.walk():
        if nd['k'] == 'DeclStmt':
            for d in nd.get('decls', []):
                if d.get('init') and d['did'] not in coord:
                    defs.setdefault(d['did'], []).append(d['init'])

    def clo(nid, seen):
        out = set()
        for x in f.walk(nid):
            if x['k'] == 'DeclRefExpr':
                if x.get('did') in coord:
                    out.add(x['did'])
                elif x.get('did') in defs and x['did'] not in seen:
                    seen.add(x['did'])
                    for i in defs[x['did']]:
                        out |= clo(i, seen)
        return out
    for r in f.walk():
        if r['k'] != 'ReturnStmt' or not r['ch']:
            continue
        dep = clo(r['ch'][0], set())
        for a in f.ancestors(r['id']):
            an = a
            if an['k'] == 'IfStmt' and an.get('cond'):
                dep |= clo(an['cond'], set())
        # a return that follows an `if (c) return ...;` is control dependent on c
        for s in f.nodes[f.body]['ch']:
            if r['id'] in [x['id'] for x in f.walk(s)]:
                break
            sn = f.nodes[s]
            if sn['k'] == 'IfStmt' and any(x['k'] == 'ReturnStmt' for x in f.walk(sn['id'])):
                dep |= clo(sn['cond'], set())
        missing = sorted('%s(%s)' % coord[c] for c in coord if c not in dep)
        n += 1
        rep.add('R06f', f.name, 'return#%d' % f.line(r), not missing, f.where(r),
                'depends on all six pose coordinates' if not missing else
                'this return does not depend on %s: poses that differ only there get the same (near-zero) path' % ', '.join(missing))
    g = [x for x in F.by_name.get('dubins', []) + F.by_name.get('(anonymous namespace)::dubins', []) if x.body and len(x.params) == 3 and
         x.file.endswith('DubinsStateSpace.cpp')]
    if not g:
        raise AnalysisBroken('word selector dubins(d, alpha, beta) vanished')
    for r, dep in depends(g[0]):
        missing = sorted(p['name'] for p in g[0].params if p['name'] not in dep)
        n += 1
        rep.add('R06f', g[0].name, 'return#%d' % g[0].line(r), not missing, g[0].where(r),
                'depends on d, alpha, beta' if not missing else 'this return does not depend on ' + ', '.join(missing))
    rep.require_count('R06f', 'path-constructor returns', n, 3)


def run(rep):
    F = facts.load_units(UNITS)
    rep.units.update(UNITS)
    rep.functions.update(f.key for f in F.functions if f.record and f.record.endswith('StateSpace') or
                         (f.record or '').endswith('StateSpaceWrapper'))
    r06a(rep, F)
    r06b(rep, F)
    r06cde(rep, F)
    r06f(rep, F)
    r06g(rep, F)
