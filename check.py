#!/usr/bin/env python3
"""Entry point of every registered check:  python3 check.py <ID> [--tier quick|thorough] [--replay file]

Exit 0: every obligation discharged (known findings printed as KNOWN-FINDING lines)
Exit 1: some obligation violated and not listed  -> "VIOLATION property=<id> replay=<path>"
Exit 2: analysis broken (anchor vanished, instance count below the frozen one, unparsable unit,
        unrecognised idiom at a frozen instance, failed self-check) -- neither a pass nor a violation
"""
import argparse
import importlib
import json
import os
import sys
import time
import traceback

VERIF = os.path.dirname(os.path.abspath(__file__))
sys.path.insert(0, VERIF)

from engine import facts  # noqa: E402
from engine.facts import AnalysisBroken  # noqa: E402


class Report:
    def __init__(self, pid, tier):
        self.pid = pid
        self.tier = tier
        self.obl = []
        self.units = set()
        self.functions = set()
        self.notes = []
        self.not_decided = []
        self.rule_text = {}
        self.extra = {}
        self.assumptions = []
        self.nontrivial = set()
        self.broken = []

    def rule(self, rid, text):
        self.rule_text[rid] = text

    def add(self, rule, function, role, ok, where='', detail='', path=None, nontrivial=True, sample=None):
        """one obligation = one (rule, function, role) instance with a verdict"""
        o = {'rule': rule, 'function': function, 'role': role, 'verdict': 'ok' if ok else 'violation',
             'where': facts.rel(where) if where else '', 'detail': detail}
        if path:
            o['path'] = path
        if sample is not None:
            o['sample'] = sample
        self.obl.append(o)
        if nontrivial:
            self.nontrivial.add((rule, function, role))
        return ok

    def undecided(self, rule, function, role, why):
        self.not_decided.append({'rule': rule, 'function': function, 'role': role, 'why': why})

    def require_count(self, rule, what, found, frozen):
        """vacuity guard: discovery must find at least the instances confirmed by reading"""
        if found < frozen:
            # deferred: a definite violation found elsewhere still takes precedence over 'analysis broken'
            self.broken.append('%s: %s: discovered %d instances, fewer than the %d confirmed by reading'
                               % (rule, what, found, frozen))

    def note(self, s):
        self.notes.append(s)


def load_known():
    kf = os.path.join(VERIF, 'known_findings.jsonl')
    out = []
    if os.path.exists(kf):
        for line in open(kf):
            line = line.strip()
            if line and not line.startswith('#'):
                out.append(json.loads(line))
    return out


def finish(rep, t0, seed, replay_only=False):
    known = [k for k in load_known() if k.get('kind') == 'finding' and k.get('property') == rep.pid]
    viol, knownhits = [], []
    for o in rep.obl:
        if o['verdict'] != 'violation':
            continue
        hit = None
        for k in known:
            if k['rule'] == o['rule'] and k['function'] == o['function'] and k['role'] == o['role']:
                hit = k
                break
        if hit:
            o['verdict'] = 'known-finding'
            knownhits.append((o, hit))
        else:
            viol.append(o)
    for o, k in knownhits:
        print('KNOWN-FINDING: property=%s %s %s [%s] %s: %s' % (rep.pid, o['rule'], o['function'], o['role'],
                                                               o['where'], k.get('what', o['detail'])))
    rdir = os.path.join(os.environ.get('VERIF_EVIDENCE_DIR') or os.path.join(VERIF, 'evidence'), 'replay')
    os.makedirs(rdir, exist_ok=True)
    for i, o in enumerate(viol):
        rp = os.path.join(rdir, '%s-%d.json' % (rep.pid, i))
        with open(rp, 'w') as fh:
            json.dump({'property': rep.pid, 'rule': o['rule'], 'function': o['function'], 'role': o['role'],
                       'where': o['where'], 'detail': o['detail'], 'path': o.get('path')}, fh, indent=1)
        print('VIOLATION property=%s replay=%s' % (rep.pid, rp))
        print('  %s %s [%s] at %s: %s' % (o['rule'], o['function'], o['role'], o['where'], o['detail']))
        if o.get('path'):
            print('  path (line:branch): %s' % ' '.join(o['path']))
    rules = {}
    for o in rep.obl:
        r = rules.setdefault(o['rule'], {'instances': 0, 'discharged': 0, 'violations': 0, 'known_findings': 0})
        r['instances'] += 1
        if o['verdict'] == 'ok':
            r['discharged'] += 1
        elif o['verdict'] == 'known-finding':
            r['known_findings'] += 1
        else:
            r['violations'] += 1
    for rid, txt in rep.rule_text.items():
        rules.setdefault(rid, {'instances': 0, 'discharged': 0, 'violations': 0, 'known_findings': 0})['text'] = txt
    samples = []
    seen_rules = set()
    for o in rep.obl:
        if o['rule'] not in seen_rules or o['verdict'] != 'ok':
            seen_rules.add(o['rule'])
            samples.append({k: o[k] for k in ('rule', 'function', 'role', 'where', 'verdict', 'detail', 'sample', 'path')
                            if k in o})
    ev = {
        'property_id': rep.pid,
        'tier': rep.tier,
        'seed': seed,
        'level': 'other',
        'coverage': {
            'explanation': 'static analysis of /repo\'s current source (clang AST + CFG facts, no OMPL code executed): '
                           + '; '.join('%s = %s' % (r, t) for r, t in sorted(rep.rule_text.items())),
            'obligations': len(rep.obl),
            'discharged': sum(1 for o in rep.obl if o['verdict'] == 'ok'),
            'evaluations': len(rep.obl),
            'distinct_nontrivial': len(rep.nontrivial),
            'rule': 'one evaluation = one rule instance (rule, qualified function, role) found by a discovery query '
                    'over the extracted facts; non-trivial = the instance had a non-empty slot set and was decided by '
                    'a path/dataflow/finite-domain argument rather than by absence of the construct',
            'samples': samples[:60],
            'rules': rules,
            'files_with_obligations': sorted({(o['where'] or '').split(':')[0] for o in rep.obl if o.get('where')}),
            'units_analysed': len(rep.units),
            'functions_analysed': len(rep.functions),
            'not_decided': rep.not_decided[:80],
            'known_findings_printed': len(knownhits),
            'notes': rep.notes,
            'exhaustive': False,
        },
        'assumptions': rep.assumptions + [
            'clang 14 front end and CFG construction are faithful to the C++ semantics of the analysed units',
            'user callbacks (validity checker, propagator, distance function) are outside the analysed program',
        ],
        'wall_s': round(time.time() - t0, 2),
        'violations': len(viol),
    }
    ev['coverage'].update(rep.extra)
    if not replay_only:
        edir = os.environ.get('VERIF_EVIDENCE_DIR') or os.path.join(VERIF, 'evidence')
        os.makedirs(edir, exist_ok=True)
        with open(os.path.join(edir, rep.pid + '.json'), 'w') as fh:
            json.dump(ev, fh, indent=1)
    nd = len(rep.not_decided)
    print('%s [%s]: %d obligations, %d discharged, %d known findings, %d violations, %d listed-not-decided; '
          '%d units, %d functions; %.1fs'
          % (rep.pid, rep.tier, len(rep.obl), ev['coverage']['discharged'], len(knownhits), len(viol), nd,
             len(rep.units), len(rep.functions), time.time() - t0))
    return 1 if viol else 0


def selfcheck(rep, pid):
    """thorough tier: re-test every rule of this property both ways on scratch copies of /repo's current tree (removed
    afterwards): each behaviour-breaking seed must fire its rule, each neutral rewrite must stay silent.  A seed whose
    anchor text no longer exists on this tree is skipped (counted), not failed."""
    sys.path.insert(0, os.path.join(VERIF, 'tools'))
    import run_seeds
    import io
    import contextlib
    buf = io.StringIO()
    with contextlib.redirect_stdout(buf):
        res = run_seeds.run([pid], jobs=int(os.environ.get('VERIF_JOBS', '12')))
    ok = [r for r in res if r[1]]
    skipped = [r for r in res if not r[1] and r[2] == 3]
    bad = [r for r in res if not r[1] and r[2] != 3]
    rep.extra['selfcheck'] = {'seeds': len(res), 'as_expected': len(ok), 'skipped_anchor_changed': [r[0]['id'] for r in skipped],
                              'not_as_expected': [{'id': r[0]['id'], 'expect': r[0].get('expect') or 'silent', 'exit': r[2], 'fired': r[3]}
                                                  for r in bad]}
    rep.note('self-check: %d seeds, %d as expected, %d skipped (anchor text changed), %d not as expected'
             % (len(res), len(ok), len(skipped), len(bad)))
    for r in bad:
        rep.broken.append('self-check seed %s: expected %s, got exit %d fired %s -- a rule no longer behaves as tested'
                          % (r[0]['id'], r[0].get('expect') or 'silent', r[2], ','.join(r[3]) or '-'))


def main():
    ap = argparse.ArgumentParser()
    ap.add_argument('pid')
    ap.add_argument('--tier', default=os.environ.get('VERIF_TIER', 'quick'))
    ap.add_argument('--replay')
    ap.add_argument('-v', action='store_true')
    a = ap.parse_args()
    tier = a.tier if a.tier in ('quick', 'thorough') else 'quick'
    seed = int(os.environ.get('VERIF_SEED', '0') or 0)
    t0 = time.time()
    rep = Report(a.pid, tier)
    try:
        mod = importlib.import_module('rules.' + a.pid.lower())
        mod.run(rep)
        if tier == 'thorough' and hasattr(mod, 'thorough'):
            mod.thorough(rep)
        if a.replay:
            want = json.load(open(a.replay))
            rep.obl = [o for o in rep.obl if o['rule'] == want['rule'] and o['function'] == want['function'] and
                       o['role'] == want['role']]
            if not rep.obl:
                print('replay: instance no longer exists on this tree: %s %s [%s]' % (
                    want['rule'], want['function'], want['role']))
                return 2
            for o in rep.obl:
                print('replay: %s %s [%s] at %s -> %s: %s' % (o['rule'], o['function'], o['role'], o['where'],
                                                              o['verdict'], o['detail']))
        if tier == 'thorough' and not a.replay and not os.environ.get('VERIF_NO_SELFCHECK') and \
                not any(o['verdict'] == 'violation' for o in rep.obl) and not rep.broken:
            selfcheck(rep, a.pid)
        rc = finish(rep, t0, seed, replay_only=bool(a.replay))
        if rc == 0 and rep.broken:
            for b in rep.broken:
                print('ANALYSIS-BROKEN property=%s: %s' % (a.pid, b))
            return 2
        return rc
    except AnalysisBroken as e:
        print('ANALYSIS-BROKEN property=%s: %s' % (a.pid, e))
        # obligations already decided before the analysis broke are still reported: a definite violation stays one
        if any(o['verdict'] == 'violation' for o in rep.obl):
            rep.note('analysis broke after these obligations were decided: %s' % e)
            if finish(rep, t0, seed, replay_only=True) == 1:
                return 1
        return 2
    except Exception:
        traceback.print_exc()
        print('ANALYSIS-BROKEN property=%s: internal error' % a.pid)
        return 2


if __name__ == '__main__':
    sys.exit(main())
